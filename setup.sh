#!/bin/bash
# Offline bootstrap of /verif/.venv = /venv's site-packages (via .pth) + crosshair/z3/cvc5 wheels.
set -e
HERE="$(cd "$(dirname "${BASH_SOURCE[0]}")" && pwd)"
V="$HERE/.venv"
if [ -x "$V/bin/python" ] && "$V/bin/python" -c "import z3, crosshair, numpy" 2>/dev/null; then exit 0; fi
rm -rf "$V"
/venv/bin/python -m venv "$V"
echo "import site; site.addsitedir('/venv/lib/python3.12/site-packages')" > "$V/lib/python3.12/site-packages/_base.pth"
PIP_NO_INDEX=1 "$V/bin/pip" install -q --no-index --find-links /opt/veriftools/wheels crosshair-tool z3-solver cvc5 jsonschema
"$V/bin/python" -c "import z3, crosshair, numpy, piquasso; print('ok', z3.get_version_string())"
