"""Core: run harness instances (symbolic execution + SMT discharge) in parallel, replay
counterexamples on the real float code, known findings, evidence files, exit codes."""
import os
import sys
import json
import time
import math
import random
import hashlib
import traceback
import importlib
import multiprocessing as mp
from fractions import Fraction

VERIF = os.path.dirname(os.path.dirname(os.path.abspath(__file__)))
REPO = os.environ.get("VERIF_REPO", "/repo")

EXIT_OK, EXIT_VIOLATION, EXIT_HARNESS = 0, 1, 3

NUM_TOL = 1e-7


def jdump(obj, path):
    os.makedirs(os.path.dirname(path), exist_ok=True)
    tmp = path + ".tmp"
    with open(tmp, "w") as f:
        json.dump(obj, f, indent=1, sort_keys=True, default=str)
        f.write("\n")
    os.replace(tmp, path)


def file_sha(path):
    try:
        return hashlib.sha256(open(path, "rb").read()).hexdigest()[:16]
    except OSError:
        return None


def fn_ref(f):
    """qualified name + file hash of an encoded function (for evidence)."""
    g = getattr(f, "py_func", f)
    g = getattr(g, "__func__", g)
    g = getattr(g, "fget", g)
    try:
        path = g.__code__.co_filename
        name = "%s.%s" % (g.__module__, g.__qualname__)
    except AttributeError:
        return repr(f)
    return "%s [%s sha256:%s]" % (name, os.path.relpath(path, REPO) if path.startswith(REPO) else path, file_sha(path))


def file_ref(path, what=""):
    """source file + hash of code that is encoded from a non-Python source (C++ AST)"""
    return "%s [%s sha256:%s]" % (what or "source", os.path.relpath(path, REPO) if path.startswith(REPO) else path, file_sha(path))


# ----------------------------------------------------------------------------- known findings
def load_known():
    p = os.path.join(VERIF, "known_findings.json")
    if not os.path.exists(p):
        return {"findings": [], "fixed": []}
    return json.load(open(p))


def match_known(known, prop, harness, params, obligation):
    import re
    for f in known.get("findings", []):
        if f.get("property") != prop:
            continue
        m = f.get("match", {})
        if m.get("harness") not in (None, harness):
            continue
        if any(params.get(k) != v for k, v in m.get("params", {}).items()):
            continue
        if m.get("obligation") and not re.search(m["obligation"], obligation or ""):
            continue
        return f
    return None


# ----------------------------------------------------------------------------- E-XA instance execution
def _decode_model(env, model_vals):
    """model {z3 var name: float} -> declared-input values {name: float}."""
    from . import xa
    vals = {}
    for name, d in env.decl.items():
        if d.kind == "int":
            vals[name] = int(model_vals.get(name, d.lo if getattr(d, "lo", None) is not None else 0))
        elif d.kind in ("real", "pos"):
            vals[name] = model_vals.get(name, 1.0 if d.kind == "pos" else (d.lo if getattr(d, "lo", None) is not None else 0.0))
        elif d.kind == "cplx":
            vals[name + ".re"] = model_vals.get(name + ".re", 0.0)
            vals[name + ".im"] = model_vals.get(name + ".im", 0.0)
        elif d.kind == "param":
            t = env.atoms.get(("trig", name))
            h = env.atoms.get(("hyp", name))
            v = None
            if t is not None and t[0].decl().name() in model_vals:
                v = math.atan2(model_vals[t[1].decl().name()], model_vals[t[0].decl().name()]) * d.denom
            elif h is not None and h[1].decl().name() in model_vals:
                v = math.asinh(model_vals[h[1].decl().name()]) * d.denom
            elif name in model_vals:
                v = model_vals[name]
            if v is not None and t is not None and name in model_vals and isinstance(model_vals[name], (int, float)) and model_vals[name] * v < 0:
                # the model fixes the SIGN of the parameter as well as cos/sin of parameter/denom: pick the representative of
                # the same angle class with that sign (same trig values, e.g. for code that takes abs(theta))
                v -= math.copysign(2 * math.pi * d.denom, v)
            vals[name] = 0.0 if v is None else v
    return vals


def _model_to_floats(model):
    import z3
    out = {}
    for dcl in model.decls():
        if dcl.arity() != 0:
            continue
        v = model[dcl]
        try:
            if z3.is_int_value(v) or z3.is_bv_value(v):
                out[dcl.name()] = v.as_long()
            elif z3.is_rational_value(v):
                out[dcl.name()] = v.numerator_as_long() / v.denominator_as_long()
            elif z3.is_algebraic_value(v):
                out[dcl.name()] = float(v.approx(30).as_fraction())
        except Exception:
            pass
    return out


def num_record_fails(rec, tol=NUM_TOL):
    """does a num-mode record violate its obligation?  returns (fails, magnitude)"""
    import numpy
    name, kind, a, b = rec[:4]
    if kind == "eq":
        a, b = complex(a), complex(b)
        if a != a or b != b:
            return True, float("nan")
        diff = abs(a - b)
        return diff > tol * max(abs(a), abs(b)) + 1e-11, diff
    if kind == "holds":
        return (not bool(a)), 1.0
    if kind == "ge":
        return float(numpy.real(a)) < float(numpy.real(b)) - tol * max(1.0, abs(a), abs(b)), float(numpy.real(b) - numpy.real(a))
    raise ValueError(kind)



def z3_check(s, timeout_ms):
    """s.check() under z3's own timeout.  (No interrupt thread: ctx.interrupt() from a timer raced with
    later API calls and corrupted the context under load; a stuck query is ended by the per-instance
    hard timeout of run_instances instead.)"""
    import z3
    s.set("timeout", int(timeout_ms))
    try:
        return str(s.check())
    except z3.Z3Exception:
        return "unknown"


def cvc5_binary_check(smt2, timeout_s):
    """decide an SMT-LIB2 script with the cvc5 binary (own process, hard timeout)."""
    import subprocess, tempfile
    fd, path = tempfile.mkstemp(suffix=".smt2", prefix="pqverif-")
    try:
        with os.fdopen(fd, "w") as f:
            f.write("(set-logic QF_NRA)\n" + smt2)
        try:
            out = subprocess.run(["cvc5", "--tlimit=%d" % int(timeout_s * 1000), path], capture_output=True, text=True, timeout=timeout_s + 5).stdout
        except (subprocess.TimeoutExpired, OSError):
            return "unknown"
        if "(error" in out:
            return "unknown"
        for line in out.split("\n"):
            if line.strip() in ("sat", "unsat", "unknown"):
                return line.strip()
        return "unknown"
    finally:
        try:
            os.unlink(path)
        except OSError:
            pass


def _mentions_machine_sorts(assertions):
    import z3
    seen = set()
    stack = list(assertions)
    while stack:
        t = stack.pop()
        i = t.get_id()
        if i in seen:
            continue
        seen.add(i)
        k = t.sort().kind()
        if k in (z3.Z3_BV_SORT, z3.Z3_FLOATING_POINT_SORT, z3.Z3_ROUNDING_MODE_SORT):
            return True
        stack.extend(t.children())
    return False


def decide(assertions, timeout_ms, order=None):
    """Portfolio decision of one obligation: z3 'smt' tactic (nla with Groebner basis; fast on
    consequences of polynomial equalities, incomplete) / z3 default (nlsat, complete) / cvc5
    binary.  returns (result, engine, solver_with_model_or_None)."""
    import z3
    order = order or os.environ.get("PQVERIF_ORDER", "nlsat0,nla,nlsat,cvc5").split(",")
    budget = timeout_ms
    s = z3.Solver()
    s.add(assertions)
    if os.environ.get("PQVERIF_DUMP"):
        import hashlib
        txt = s.to_smt2()
        with open(os.path.join(os.environ["PQVERIF_DUMP"], hashlib.sha1(txt.encode()).hexdigest()[:12] + ".smt2"), "w") as f:
            f.write(txt)
    share = {"nlsat0": 0.04, "nla": 0.12, "nlsat": 0.5, "cvc5": 0.34}
    if _mentions_machine_sorts(assertions):
        # bit-vector / IEEE floating-point obligations (E-NS): one fresh z3 solver (bit-blasting + SAT), whole budget
        s3 = z3.Solver()
        s3.add(assertions)
        r = z3_check(s3, budget)
        return (r, "z3-bv-fp", s3) if r != "unknown" else ("unknown", "z3-bv-fp", None)
    for eng in order:
        tmo = max(int(budget * share[eng]), 1500)
        if eng in ("nlsat", "nlsat0"):
            r = z3_check(s, tmo)
            if r != "unknown":
                return r, "z3-nlsat", s
        elif eng == "nla":
            s2 = z3.Then("simplify", "solve-eqs", "smt").solver()
            s2.add(assertions)
            r = z3_check(s2, tmo)
            if r != "unknown":
                return r, "z3-smt-nla", s2
        elif eng == "cvc5":
            r = cvc5_binary_check(s.to_smt2(), max(tmo // 1000, 2))
            if r == "unsat":
                return r, "cvc5", None
            if r == "sat":
                r2 = z3_check(s, max(budget // 2, 2000))
                if r2 == "sat":
                    return "sat", "cvc5+z3-nlsat", s
                return "unknown", "cvc5-sat-without-model", None
    return "unknown", "portfolio", None


def guess_model(asserts, seed, tries=3):
    """cheap pre-pass for refutable obligations (a wrong polynomial differs from the right one almost everywhere, but nlsat can
    take minutes to produce a model in 20 variables): random small rationals for the real variables, integers left to the
    solver; z3 itself checks the ground instance, so a 'sat' here is a solver verdict with a model like any other."""
    import z3
    from . import xa
    vs = set()
    for a in asserts:
        vs |= xa._vars(a)
    rng = random.Random(seed * 31 + len(vs))
    names = sorted(v for v in vs if not v.startswith("fn:"))
    if not names or len(names) > 200:
        return None, None, None
    free = [n_ for n_ in names if not (n_.endswith(".re") or n_.endswith(".im"))]
    if len(free) > 2 or len(free) == len(names):
        return None, None, None      # only for obligations that become (nearly) ground once the generic entries are fixed
    for t in range(tries):
        s = z3.Solver()
        s.set("timeout", 4000)
        s.add(asserts)
        ok = True
        for nme in names:
            if nme.endswith(".re") or nme.endswith(".im"):
                s.add(z3.Real(nme) == z3.RealVal("%d/%d" % (rng.randint(-12, 12), rng.choice((1, 2, 3, 4)))))
        try:
            if str(s.check()) == "sat":
                return "sat", "z3-ground-instance", s
        except z3.Z3Exception:
            return None, None, None
    return None, None, None


def run_num(harness, params, values, rng=None):
    from . import xa
    env = xa.Env("num", values=values, rng=rng)
    with env:
        harness(env, **params)
    return env


def run_instance(modname, hname, params, opts, conn=None):
    """Symbolically execute one harness instance on all paths, discharge its obligations.
    Returns a result dict (JSON-able).  Runs in a forked child."""
    import z3
    from . import xa
    t0 = time.time()
    mod = importlib.import_module(modname)
    harness = mod.HARNESSES[hname]
    res = {
        "harness": hname, "params": params, "paths": 0, "obligations": [], "error": None,
        "validation": {"points": 0, "rejected": 0, "compared": 0}, "functions": [], "stubs": [],
        "build_s": 0.0, "solve_s": 0.0, "atoms": 0, "assumptions": [],
    }
    timeout_ms = int(opts.get("timeout_s", 60) * 1000)
    path_budget = opts.get("path_budget", 64)
    seed = opts.get("seed", 0)

    def emit(kind, payload):
        if conn is not None:
            conn.send((kind, payload))

    todo = [[]]
    envs = []
    vacs = []
    try:
        while todo:
            if len(envs) >= path_budget:
                res["error"] = "path budget %d exceeded" % path_budget
                break
            sched = todo.pop()
            env = xa.Env("sym", schedule=sched)
            tb = time.time()
            try:
                with env:
                    harness(env, **params)
            except xa.PathAbort:
                todo.extend(env.alts)      # alternatives discovered before the abort are still to be explored
                continue
            res["build_s"] += time.time() - tb
            todo.extend(env.alts)
            envs.append(env)
            res["paths"] += 1
            res["atoms"] = max(res["atoms"], len(env.atoms))
            for f in env.functions:
                if f not in res["functions"]:
                    res["functions"].append(f)
            for s_ in env.stubs:
                if s_ not in res["stubs"]:
                    res["stubs"].append(s_)
            for lab, _ in env.assumptions:
                if lab not in res["assumptions"] and len(res["assumptions"]) < 40:
                    res["assumptions"].append(lab)

            # vacuity: assumptions + axioms + path condition must be satisfiable
            ts = time.time()
            if opts.get("light_paths") and res["paths"] > 1 and env.pc:
                # every branch choice on this path was established feasible by decide(); no separate query
                r, _eng, _s = "sat", "by-construction", None
            else:
                r, _eng, _s = decide(list(env.axioms) + [a for _, a in env.assumptions] + list(env.pc), min(timeout_ms, 24000), order=["nla", "nlsat"])
            vac = {"name": "<assumptions-satisfiable path %d>" % res["paths"], "result": r, "t": round(time.time() - ts, 3), "kind": "vacuity"}
            vacs.append((vac, env))
            res["obligations"].append(vac)
            emit("ob", vac)
            if r == "unsat":
                if env.pc:
                    # infeasible path discovered late (decide() treats unknown as feasible)
                    vac["result"] = "infeasible-path"
                    continue
                res["error"] = "VACUOUS: assumptions of %s are unsatisfiable" % hname
                break

            for rec in env.records:
                name, kind, a, b, pc = rec
                if kind == "eq":
                    x, y = xa.SC.lift(a), xa.SC.lift(b)
                    neg = z3.Or(x.re != y.re, x.im != y.im)
                elif kind == "holds":
                    neg = z3.Not(xa._b(a))
                else:
                    raise xa.HarnessError("record kind %s in sym mode" % kind)
                ob = {"name": name, "path": res["paths"], "kind": kind, "pc_len": len(pc)}
                ts = time.time()
                simp = z3.simplify(neg, som=True)
                if kind == "eq" and not z3.is_false(simp) and not z3.is_true(simp) and opts.get("som_blowup", False):
                    # polynomial identities: let z3's rewriter expand to a full sum of monomials (default som_blowup=10 stops early)
                    try:
                        simp2 = z3.simplify(neg, som=True, som_blowup=10 ** 7)
                        if z3.is_false(simp2):
                            simp = simp2
                    except z3.Z3Exception:
                        pass
                if z3.is_false(simp):
                    ob.update(result="unsat", trivial=True, t=0.0)
                elif z3.is_true(simp):
                    # violated on every input of this path: any model of the path condition is a counterexample
                    s0 = z3.Solver()
                    s0.add(env.axioms)
                    s0.add([a_ for _, a_ in env.assumptions])
                    s0.add(pc)
                    m0 = _model_to_floats(s0.model()) if z3_check(s0, timeout_ms) == "sat" else {}
                    ob.update(result="sat", trivial=True, t=0.0, model=m0)
                else:
                    nvars = len(xa._vars(simp))
                    goals = [simp] + pc
                    asserts = list(env._closure(goals)) + list(pc) + [simp]
                    r, engine, s = guess_model(asserts, seed) if opts.get("som_blowup") else (None, None, None)
                    if r is None:
                        r, engine, s = decide(asserts, timeout_ms)
                    ob.update(result=str(r), trivial=False, t=round(time.time() - ts, 3), nvars=nvars, engine=engine)
                    if str(r) == "unknown":
                        ob["reason"] = "timeout/unknown in all of z3-nlsat, z3-smt-nla, cvc5"
                    if str(r) == "sat":
                        # full model with every constraint (for replay)
                        s2 = z3.Solver()
                        s2.add(env.axioms)
                        s2.add([a_ for _, a_ in env.assumptions])
                        s2.add(pc)
                        s2.add(simp)
                        m = s2.model() if z3_check(s2, timeout_ms) == "sat" else s.model()
                        ob["model"] = _model_to_floats(m)
                    if opts.get("smt2_dir") and str(r) != "sat":
                        pass
                if ob["result"] == "sat":
                    vals = _decode_model(env, ob.get("model", {}))
                    ob["values"] = vals
                    try:
                        nenv = run_num(harness, params, vals)
                        bad_assume = [l for l, ok in nenv.num_assumptions if not ok]
                        nrec = [r_ for r_ in nenv.records if r_[0] == name]
                        if getattr(harness, "replay_any", False) and not bad_assume:
                            # the num-mode harness states the end-to-end property; any failing record reproduces
                            failing = [r_ for r_ in nenv.records if num_record_fails(r_)[0]]
                            nrec = failing[:1] or nenv.records[:1]
                        if bad_assume:
                            ob["replay"] = "assumption-not-met:%s" % bad_assume[:3]
                        elif not nrec:
                            ob["replay"] = "record-missing"
                        else:
                            fails, mag = num_record_fails(nrec[0])
                            ob["replay"] = "reproduced" if fails else "not-reproduced"
                            ob["magnitude"] = mag
                            ob["num"] = [str(nrec[0][2]), str(nrec[0][3])]
                    except Exception as e:  # real code raised on the counterexample input
                        ob["replay"] = "exception:%s:%s" % (type(e).__name__, str(e)[:200])
                res["solve_s"] += time.time() - ts
                res["obligations"].append(ob)
                emit("ob", ob)
                if opts.get("light_paths") and ob.get("replay") == "reproduced":
                    todo = []       # one replayed counterexample per instance is enough; stop enumerating paths

        # engine validation: sym terms evaluated at random points vs real float execution
        if envs and res["error"] is None:
            rng = random.Random(seed * 7919 + hash(hname) % 1000)
            sampler = getattr(harness, "sampler", None)
            want_pts = opts.get("validation_points", 2)
            for k in range(want_pts * 6):
                if res["validation"]["points"] - res["validation"]["rejected"] >= want_pts:
                    break
                res["validation"]["points"] += 1
                try:
                    values = sampler(rng, **params) if sampler else None
                    nenv = run_num(harness, params, values, rng=rng)
                except (ArithmeticError, ValueError) as e:
                    res["validation"]["rejected"] += 1
                    continue
                if any(not ok for _, ok in nenv.num_assumptions):
                    res["validation"]["rejected"] += 1
                    continue
                # choose the path whose condition holds
                chosen = None
                for env in envs:
                    try:
                        val = xa.atom_valuation(env, nenv.values)
                        val = xa.complete_valuation(env, val)
                        if all(xa.eval_term(c, val) for c in env.pc):
                            chosen = (env, val)
                            break
                    except KeyError:
                        continue
                if chosen is None:
                    res["validation"]["rejected"] += 1
                    continue
                env, val = chosen
                try:
                    if not all(xa.eval_term(a_, val) for _, a_ in env.assumptions):
                        res["validation"]["rejected"] += 1
                        continue
                except (KeyError, ZeroDivisionError, OverflowError):
                    res["validation"]["rejected"] += 1
                    continue
                # a concrete point satisfying every assumption of this path is a witness of non-vacuity
                for vac, venv in vacs:
                    if venv is env and vac["result"] == "unknown":
                        try:
                            if all(xa.eval_term(a_, val) for _, a_ in env.assumptions):
                                vac["result"] = "sat-by-numeric-witness"
                        except KeyError:
                            pass
                nmap = {r_[0]: r_ for r_ in nenv.records}
                cache = {}
                for rec in env.records:
                    name, kind, a, b, pc = rec
                    if kind != "eq" or name not in nmap:
                        continue
                    for side, (sv, nv) in enumerate(((a, nmap[name][2]), (b, nmap[name][3]))):
                        sv = xa.SC.lift(sv)
                        got = complex(xa.eval_term(sv.re, val, cache), xa.eval_term(sv.im, val, cache))
                        want = complex(nv)
                        res["validation"]["compared"] += 1
                        if abs(got - want) > 1e-6 * max(1.0, abs(want)):
                            res["error"] = ("ENGINE-VALIDATION mismatch in %s %s side %d: symbolic %r vs float %r at %r"
                                            % (hname, name, side, got, want, nenv.values))
                            raise StopIteration
    except StopIteration:
        pass
    except Exception as e:
        res["error"] = "%s: %s\n%s" % (type(e).__name__, e, traceback.format_exc()[-1500:])
    res["wall_s"] = round(time.time() - t0, 3)
    return res


def _child(modname, hname, params, opts, conn):
    try:
        res = run_instance(modname, hname, params, opts, conn)
        conn.send(("done", res))
    except BaseException as e:
        conn.send(("done", {"harness": hname, "params": params, "error": "child crashed: %r" % (e,), "obligations": [],
                            "paths": 0, "validation": {}, "functions": [], "stubs": [], "assumptions": []}))
    finally:
        conn.close()


def run_instances(modname, instances, opts, jobs=None, log=print):
    """Run [(hname, params)] in forked children, at most `jobs` at a time."""
    jobs = jobs or min(16, os.cpu_count() or 4)
    hard = opts.get("instance_timeout_s", 600)
    ctx = mp.get_context("fork")
    pending = list(enumerate(instances))
    running = {}
    results = [None] * len(instances)
    while pending or running:
        while pending and len(running) < jobs:
            i, (hname, params) = pending.pop(0)
            pc, cc = ctx.Pipe(duplex=False)
            p = ctx.Process(target=_child, args=(modname, hname, params, opts, cc))
            p.start()
            cc.close()
            running[i] = (p, pc, time.time(), [], hname, params)
        done = []
        for i, (p, pc, t0, partial, hname, params) in running.items():
            try:
                while pc.poll(0.01):
                    kind, payload = pc.recv()
                    if kind == "ob":
                        partial.append(payload)
                    elif kind == "done":
                        results[i] = payload
                        done.append(i)
                        break
            except (EOFError, OSError):
                if results[i] is None:
                    results[i] = {"harness": hname, "params": params, "error": "child died (exit %s)" % p.exitcode,
                                  "obligations": partial, "paths": 0, "validation": {}, "functions": [], "stubs": [], "assumptions": []}
                done.append(i)
            if i not in done and time.time() - t0 > hard:
                p.terminate()
                results[i] = {"harness": hname, "params": params, "error": None, "timeout": True,
                              "obligations": partial + [{"name": "<instance hard timeout %ss>" % hard, "result": "unknown", "kind": "timeout", "trivial": False}],
                              "paths": 0, "validation": {}, "functions": [], "stubs": [], "assumptions": []}
                done.append(i)
        for i in done:
            p, pc = running[i][0], running[i][1]
            p.join(timeout=5)
            if p.is_alive():
                p.kill()
            pc.close()
            del running[i]
        if not done:
            time.sleep(0.02)
    return results


# ----------------------------------------------------------------------------- property run / report
class Report:
    def __init__(self, prop, tier, seed):
        self.prop, self.tier, self.seed = prop, tier, seed
        self.t0 = time.time()
        self.obligations = 0
        self.discharged = 0
        self.trivial = 0
        self.nontrivial_names = set()
        self.inconclusive = []
        self.violations = []
        self.known = []
        self.harness_errors = []
        self.samples = []
        self.functions = []
        self.stubs = []
        self.assumptions = []
        self.bounds = {}
        self.solver_s = 0.0
        self.build_s = 0.0
        self.paths = 0
        self.validation = {"points": 0, "rejected": 0, "compared": 0}
        self.by_result = {}
        self.engines = []
        self.extra = {}
        self.known_db = load_known()
        self.lines = []

    def say(self, s):
        print(s, flush=True)

    def note_function(self, f):
        r = f if isinstance(f, str) else fn_ref(f)
        if r not in self.functions:
            self.functions.append(r)

    def add_instance_result(self, modname, res):
        h, params = res["harness"], res.get("params", {})
        if res.get("error"):
            self.harness_errors.append("%s %s: %s" % (h, params, res["error"]))
        for k in ("points", "rejected", "compared"):
            self.validation[k] += res.get("validation", {}).get(k, 0)
        self.paths += res.get("paths", 0)
        self.solver_s += res.get("solve_s", 0.0)
        self.build_s += res.get("build_s", 0.0)
        for f in res.get("functions", []):
            self.note_function(f)
        for s_ in res.get("stubs", []):
            if s_ not in self.stubs:
                self.stubs.append(s_)
        for a in res.get("assumptions", []):
            if a not in self.assumptions and len(self.assumptions) < 60:
                self.assumptions.append(a)
        for ob in res.get("obligations", []):
            self.add_obligation(h, params, ob)

    def add_obligation(self, h, params, ob):
        r = ob.get("result")
        if ob.get("kind") == "vacuity":
            self.by_result["vacuity-" + str(r)] = self.by_result.get("vacuity-" + str(r), 0) + 1
            if r == "unknown":
                self.inconclusive.append("%s %s %s: assumptions-satisfiability unknown" % (h, params, ob["name"]))
            return
        self.obligations += 1
        self.by_result[r] = self.by_result.get(r, 0) + 1
        key = "%s|%s|%s" % (h, json.dumps(params, sort_keys=True, default=str), ob["name"])
        if r == "unsat":
            self.discharged += 1
            if ob.get("trivial") and not ob.get("pc_len"):
                self.trivial += 1
            elif ob.get("trivial"):
                # decided on a path whose feasibility (a constraint over symbolic inputs) the solver established
                self.trivial += 1
                self.nontrivial_names.add(key + "|path%s" % ob.get("path"))
                if len(self.samples) < 6:
                    self.samples.append({"harness": h, "params": params, "obligation": ob["name"], "result": "holds on solver-feasible path %s (%d branch decisions)" % (ob.get("path"), ob.get("pc_len"))})
            else:
                self.nontrivial_names.add(key)
                if len(self.samples) < 12 and (len(self.samples) < 4 or hash(key) % 7 == 0):
                    self.samples.append({"harness": h, "params": params, "obligation": ob["name"], "result": "unsat",
                                         "solver_s": ob.get("t"), "vars": ob.get("nvars")})
        elif r == "sat":
            rep = ob.get("replay", "")
            if rep == "reproduced":
                self.violation(h, params, ob["name"], ob.get("values", {}), "magnitude %s; float values %s" % (ob.get("magnitude"), ob.get("num")))
            else:
                self.harness_errors.append("%s %s %s: solver model did not reproduce on the float code (%s)" % (h, params, ob["name"], rep))
        else:
            self.inconclusive.append("%s %s %s: %s %s" % (h, params, ob["name"], r, ob.get("reason", "")))

    def violation(self, h, params, obname, values, detail, kind="xa", extra=None):
        """a replayed (reproduced on the real code) violation."""
        kf = match_known(self.known_db, self.prop, h, params, obname)
        rec = {"property": self.prop, "kind": kind, "harness": h, "params": params, "obligation": obname,
               "values": values, "detail": detail}
        if extra:
            rec.update(extra)
        if kf is not None:
            self.known.append((kf, rec))
            return
        hid = hashlib.sha256(json.dumps([h, params, obname], sort_keys=True, default=str).encode()).hexdigest()[:10]
        path = os.path.join(VERIF, "replays", self.prop, "%s-%s.json" % (h, hid))
        jdump(rec, path)
        self.violations.append((rec, path))

    def finish(self, level="other", explanation="", extra_cov=None):
        wall = time.time() - self.t0
        printed = set()
        for kf, rec in self.known:
            k = kf.get("id", kf.get("what"))
            if k in printed:
                continue
            printed.add(k)
            self.say("KNOWN-FINDING: property=%s %s" % (self.prop, kf.get("what", "")))
        for line in self.inconclusive[:40]:
            self.say("INCONCLUSIVE obligation=%s" % line)
        if len(self.inconclusive) > 40:
            self.say("INCONCLUSIVE ... and %d more" % (len(self.inconclusive) - 40))
        for e in self.harness_errors[:20]:
            self.say("HARNESS-ERROR %s" % e)
        seen_paths = set()
        for rec, path in self.violations:
            if path in seen_paths:
                continue
            seen_paths.add(path)
            if len(seen_paths) <= 12:
                self.say("VIOLATION property=%s replay=%s" % (self.prop, path))
                self.say("  %s %s %s: %s" % (rec["harness"], rec["params"], rec["obligation"], rec["detail"]))
        if len(seen_paths) > 12:
            self.say("... and %d more violations (replay files under %s)" % (len(seen_paths) - 12, os.path.join(VERIF, "replays", self.prop)))
        cov = {
            "explanation": explanation,
            "obligations": self.obligations,
            "discharged": self.discharged,
            "trivially_equal_after_simplification": self.trivial,
            "inconclusive": len(self.inconclusive),
            "inconclusive_list": self.inconclusive[:30],
            "evaluations": max(self.obligations, 1),
            "distinct_nontrivial": len(self.nontrivial_names),
            "rule": ("one evaluation = one solver obligation (negated property over symbolic inputs); non-trivial = distinct "
                     "(harness, parameters, entry) whose negation still contains symbolic variables after z3 simplification, "
                     "was decided unsat by the solver, and whose assumption set was shown satisfiable; for path-enumerating harnesses "
                     "also each (entry, path) whose path condition over symbolic inputs the solver established feasible"),
            "samples": self.samples or [{"note": "no non-trivial obligation in this run"}],
            "queries_by_result": self.by_result,
            "paths_explored": self.paths,
            "solver_wall_s": round(self.solver_s, 2),
            "symbolic_execution_wall_s": round(self.build_s, 2),
            "engine_validation": self.validation,
            "functions_encoded": self.functions,
            "stubs": self.stubs,
            "bounds": self.bounds,
            "known_findings_reproduced": sorted({kf.get("id", "?") for kf, _ in self.known}),
            "harness_errors": self.harness_errors[:10],
            "trusted_base": ["z3 %s" % _z3v(), "pqverif numpy facade / IR interpreter (validated per run at random points)", "CPython, numpy"],
            "checker_cmd": "./check %s --tier %s" % (self.prop, self.tier),
        }
        cov.update(self.extra)
        if extra_cov:
            cov.update(extra_cov)
        ev = {
            "property_id": self.prop, "tier": self.tier, "seed": self.seed, "level": level,
            "coverage": cov, "assumptions": self.assumptions, "wall_s": round(wall, 2),
            "violations": len(seen_paths),
        }
        jdump(ev, os.path.join(VERIF, "evidence", "%s.json" % self.prop))
        self.say("SUMMARY property=%s tier=%s obligations=%d discharged=%d (trivial %d) inconclusive=%d violations=%d known=%d harness_errors=%d wall=%.1fs solver=%.1fs"
                 % (self.prop, self.tier, self.obligations, self.discharged, self.trivial, len(self.inconclusive),
                    len(seen_paths), len(printed), len(self.harness_errors), wall, self.solver_s))
        if self.violations:
            # replayed violations take precedence: a change that breaks the property often also breaks the
            # preconditions of the contract stubs (reported above as harness errors of the same run)
            return EXIT_VIOLATION
        if self.harness_errors:
            return EXIT_HARNESS
        return EXIT_OK


def _z3v():
    try:
        import z3
        return z3.get_version_string()
    except Exception:
        return "?"


def replay_file(path):
    """./check Cxx --replay path : re-run the recorded counterexample on the real code."""
    rec = json.load(open(path))
    prop = rec["property"]
    mod = importlib.import_module("pqverif.props.%s" % prop)
    if rec.get("kind", "xa") == "xa":
        harness = mod.HARNESSES[rec["harness"]]
        env = run_num(harness, rec["params"], rec["values"])
        nrec = [r for r in env.records if r[0] == rec["obligation"]]
        if not nrec:
            print("replay: obligation %s not produced" % rec["obligation"])
            return EXIT_HARNESS
        fails, mag = num_record_fails(nrec[0])
        print("replay %s %s %s: lhs=%s rhs=%s -> %s" % (rec["harness"], rec["params"], rec["obligation"], nrec[0][2], nrec[0][3],
                                                       "VIOLATED" if fails else "holds"))
        if fails:
            print("VIOLATION property=%s replay=%s" % (prop, path))
            return EXIT_VIOLATION
        return EXIT_OK
    if rec.get("kind") == "ch":
        from . import ch
        ok = ch.replay(rec)
        if not ok:
            print("VIOLATION property=%s replay=%s" % (prop, path))
            return EXIT_VIOLATION
        return EXIT_OK
    fn = getattr(mod, "replay", None)
    if fn is None:
        print("no replay function for kind %s" % rec.get("kind"))
        return EXIT_HARNESS
    ok = fn(rec)
    if not ok:
        print("VIOLATION property=%s replay=%s" % (prop, path))
        return EXIT_VIOLATION
    return EXIT_OK
