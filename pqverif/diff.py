"""Exact partial derivatives of values computed by executed code (E-XA terms).

A value computed by the real code on symbolic inputs is a z3 Real term over input variables and function atoms
(cos/sin, cosh/sinh, sech, exp, sqrt, reciprocal, named sub-terms).  Every atom is a known function of a known
argument term, so the term has an exact symbolic derivative by the chain rule; `d(env, term, name)` builds it as
another z3 term over the same atoms.  Used to compare hand-written gradient rules with the derivative of what the
library itself computes."""
import z3

from .xa import HarnessError, RV, ZERO, ONE, SC, radd, rmul, rsub, rneg


def _atom_rules(env):
    """atom variable name -> lambda D: derivative term, where D(term) differentiates a term"""
    rules = {}
    for key, a in env.atoms.items():
        if not isinstance(key, tuple):
            continue
        if key[0] in ("trig", "hyp") and isinstance(key[1], str):
            sym = key[1]
            dcl = env.decl.get(sym)
            if dcl is None or dcl.kind == "constangle":
                continue
            den = getattr(dcl, "denom", 1)
            arg = env.var(sym) / den
            c, s = a
            if key[0] == "trig":
                rules[c.decl().name()] = (lambda D, s=s, arg=arg: rmul(rneg(s), D(arg)))
                rules[s.decl().name()] = (lambda D, c=c, arg=arg: rmul(c, D(arg)))
            else:
                rules[c.decl().name()] = (lambda D, s=s, arg=arg: rmul(s, D(arg)))
                rules[s.decl().name()] = (lambda D, c=c, arg=arg: rmul(c, D(arg)))
        elif key[0] == "sech" and isinstance(key[1], str):
            sym = key[1]
            den = getattr(env.decl.get(sym), "denom", 1)
            arg = env.var(sym) / den
            ch, sh = env.atoms[("hyp", sym)]
            # d sech = -sech^2 * sinh
            rules[a.decl().name()] = (lambda D, a=a, sh=sh, arg=arg: rmul(rneg(rmul(rmul(a, a), sh)), D(arg)))
    for kind, names, args in env.defs:
        if kind == "sqrt":
            v = z3.Real(names[0])
            rules[names[0]] = (lambda D, v=v, t=args[0]: D(t) / (2 * v))
        elif kind == "recip":
            v = z3.Real(names[0])
            rules[names[0]] = (lambda D, v=v, t=args[0]: rneg(rmul(rmul(v, v), D(t))))
        elif kind == "let":
            rules[names[0]] = (lambda D, t=args[0]: D(t))
        elif kind == "gexp":
            e, ie = z3.Real(names[0]), z3.Real(names[1])
            rules[names[0]] = (lambda D, e=e, t=args[0]: rmul(e, D(t)))
            rules[names[1]] = (lambda D, ie=ie, t=args[0]: rneg(rmul(ie, D(t))))
        elif kind == "gtrig":
            c, s = z3.Real(names[0]), z3.Real(names[1])
            rules[names[0]] = (lambda D, s=s, t=args[0]: rmul(rneg(s), D(t)))
            rules[names[1]] = (lambda D, c=c, t=args[0]: rmul(c, D(t)))
        elif kind == "ghyp":
            c, s = z3.Real(names[0]), z3.Real(names[1])
            rules[names[0]] = (lambda D, s=s, t=args[0]: rmul(s, D(t)))
            rules[names[1]] = (lambda D, c=c, t=args[0]: rmul(c, D(t)))
        elif kind == "crecip":
            qr, qi = z3.Real(names[0]), z3.Real(names[1])
            # q = 1/x  ->  dq = -q^2 dx  (complex)
            def mk(part, qr=qr, qi=qi, xr=args[0], xi=args[1]):
                def rule(D):
                    dxr, dxi = D(xr), D(xi)
                    q2r, q2i = qr * qr - qi * qi, 2 * qr * qi
                    return -(q2r * dxr - q2i * dxi) if part == 0 else -(q2r * dxi + q2i * dxr)
                return rule
            rules[names[0]] = mk(0)
            rules[names[1]] = mk(1)
        else:
            for n in names:
                rules[n] = None            # abs, eigenvalues, complex sqrt: no derivative rule
    return rules


def d(env, term, wrt):
    """exact d term / d wrt  (wrt: name of a declared real / parameter variable)"""
    rules = _atom_rules(env)
    inputs = set(env.decl)
    memo = {}

    def D(t):
        t = t if z3.is_expr(t) else RV(t)
        i = t.get_id()
        if i in memo:
            return memo[i]
        memo[i] = r = _D(t)
        return r

    def _D(t):
        if z3.is_rational_value(t) or z3.is_int_value(t) or z3.is_algebraic_value(t):
            return ZERO
        k = t.decl().kind()
        ch = t.children()
        if not ch:
            if k != z3.Z3_OP_UNINTERPRETED:
                raise HarnessError("diff: leaf %s" % t)
            n = t.decl().name()
            if n == wrt:
                return ONE
            if n in rules:
                if rules[n] is None:
                    raise HarnessError("diff: no derivative rule for atom %s" % n)
                return rules[n](D)
            return ZERO                      # another input, or a constant atom (pi, sqrt(2), constant angles)
        if k == z3.Z3_OP_ADD:
            out = ZERO
            for c in ch:
                out = radd(out, D(c))
            return out
        if k == z3.Z3_OP_SUB:
            out = D(ch[0])
            for c in ch[1:]:
                out = rsub(out, D(c))
            return out
        if k == z3.Z3_OP_UMINUS:
            return rneg(D(ch[0]))
        if k == z3.Z3_OP_MUL:
            out = ZERO
            for j, c in enumerate(ch):
                dc = D(c)
                if z3.is_rational_value(dc) and dc.numerator_as_long() == 0:
                    continue
                term_ = dc
                for j2, c2 in enumerate(ch):
                    if j2 != j:
                        term_ = rmul(term_, c2)
                out = radd(out, term_)
            return out
        if k == z3.Z3_OP_DIV:
            a, b = ch
            return rsub(D(a) / b, rmul(a, D(b)) / (b * b))
        if k == z3.Z3_OP_POWER:
            base, e = ch
            if not (z3.is_rational_value(e) or z3.is_int_value(e)):
                raise HarnessError("diff: symbolic exponent")
            return rmul(rmul(e, base ** (e - 1)), D(base))
        if k == z3.Z3_OP_TO_REAL:
            return ZERO
        raise HarnessError("diff: unsupported operator %s" % t.decl())

    return D(term)


def d_sc(env, x, wrt):
    """derivative of a complex value (SC) with respect to a real input"""
    x = SC.lift(x)
    return SC(d(env, x.re, wrt), d(env, x.im, wrt))
