"""E-SI: symbolic machine integers.  Values are z3 Int terms (mathematical integers); every
arithmetic result is accompanied by a recorded no-overflow obligation for the stated width, so
that (when all of them are discharged) mathematical and machine semantics coincide.  Also a
helper that extracts one iteration of a `for` loop from a function's source (AST) so that an
inductive step can be executed from an arbitrary symbolic state."""
import ast
import math
import inspect
import textwrap

import z3

from . import xa


class SI:
    __slots__ = ("e", "bits")
    __array_ufunc__ = None

    def __init__(self, e, bits=64):
        self.e = e if z3.is_expr(e) else z3.IntVal(int(e))
        self.bits = bits

    @staticmethod
    def lift(x, bits=64):
        if isinstance(x, SI):
            return x
        if isinstance(x, xa.SymBool):
            return SI(z3.If(x.e, 1, 0), bits)
        return SI(z3.IntVal(int(x)), bits)

    def _res(self, e, o, what):
        bits = max(self.bits, o.bits)
        r = SI(z3.simplify(e), bits)
        env = xa.ENV
        if env is not None and not z3.is_int_value(r.e):
            lo, hi = -(2 ** (bits - 1)), 2 ** (bits - 1) - 1
            env.records.append(("no-overflow int%d #%d: %s" % (bits, len(env.records), what), "holds",
                                z3.And(r.e >= lo, r.e <= hi), None, list(env.pc)))
        return r

    def __add__(self, o):
        o = SI.lift(o, self.bits)
        return self._res(self.e + o.e, o, "add")

    __radd__ = __add__

    def __sub__(self, o):
        o = SI.lift(o, self.bits)
        return self._res(self.e - o.e, o, "sub")

    def __rsub__(self, o):
        o = SI.lift(o, self.bits)
        return o._res(o.e - self.e, self, "sub")

    def __mul__(self, o):
        o = SI.lift(o, self.bits)
        return self._res(self.e * o.e, o, "mul")

    __rmul__ = __mul__

    def __floordiv__(self, o):
        o = SI.lift(o, self.bits)
        env = xa.ENV
        if env is not None and not (z3.is_int_value(o.e) and o.e.as_long() > 0):
            # z3's Int division is floor division for positive divisors; anything else is reported
            env.records.append(("divisor>0 #%d" % len(env.records), "holds", o.e > 0, None, list(env.pc)))
        return SI(z3.simplify(self.e / o.e), max(self.bits, o.bits))

    def __neg__(self):
        return SI(-self.e, self.bits)

    def _inplace(self, o, f, what):
        o = SI.lift(o, self.bits)
        r = SI(z3.simplify(f(self.e, o.e)), self.bits)
        env = xa.ENV
        if env is not None and not z3.is_int_value(r.e):
            lo, hi = -(2 ** (self.bits - 1)), 2 ** (self.bits - 1) - 1
            env.records.append(("no-overflow int%d #%d: in-place %s" % (self.bits, len(env.records), what), "holds",
                                z3.And(r.e >= lo, r.e <= hi), None, list(env.pc)))
        elif env is not None:
            v = r.e.as_long()
            if not -(2 ** (self.bits - 1)) <= v <= 2 ** (self.bits - 1) - 1:
                env.records.append(("no-overflow int%d #%d: in-place %s" % (self.bits, len(env.records), what), "holds", z3.BoolVal(False), None, list(env.pc)))
        return r

    def __iadd__(self, o):
        return self._inplace(o, lambda a, b: a + b, "add")

    def __isub__(self, o):
        return self._inplace(o, lambda a, b: a - b, "sub")

    def __imul__(self, o):
        return self._inplace(o, lambda a, b: a * b, "mul")

    def __ifloordiv__(self, o):
        o = SI.lift(o, self.bits)
        env = xa.ENV
        if env is not None and not (z3.is_int_value(o.e) and o.e.as_long() > 0):
            env.records.append(("divisor>0 #%d" % len(env.records), "holds", o.e > 0, None, list(env.pc)))
        return SI(z3.simplify(self.e / o.e), self.bits)

    def _cmp(self, o, f):
        o = SI.lift(o, self.bits)
        return xa.SymBool(f(self.e, o.e))

    def __lt__(self, o): return self._cmp(o, lambda a, b: a < b)
    def __le__(self, o): return self._cmp(o, lambda a, b: a <= b)
    def __gt__(self, o): return self._cmp(o, lambda a, b: a > b)
    def __ge__(self, o): return self._cmp(o, lambda a, b: a >= b)
    def __eq__(self, o): return self._cmp(o, lambda a, b: a == b)
    def __ne__(self, o): return self._cmp(o, lambda a, b: a != b)
    __hash__ = None

    @property
    def shape(self):
        return ()

    def __int__(self):
        if z3.is_int_value(self.e):
            return self.e.as_long()
        raise xa.HarnessError("symbolic machine integer forced to int")

    __index__ = __int__

    def __repr__(self):
        return "SI(%s:int%d)" % (self.e, self.bits)


def _bits_of(dtype, default=64):
    if dtype is None:
        return default
    name = dtype if isinstance(dtype, str) else getattr(dtype, "__name__", str(dtype))
    digits = "".join(ch for ch in name if ch.isdigit())
    return int(digits) if digits else default


class SIArr:
    """1-d integer array with a dtype width: element stores are checked to fit the width"""

    def __init__(self, items, bits):
        self.items = [SI.lift(x, bits) for x in items]
        self.bits = bits
        for x in self.items:
            x.bits = bits

    @property
    def shape(self):
        return (len(self.items),)

    def __len__(self):
        return len(self.items)

    def _fit(self, v, what):
        v = SI.lift(v, self.bits)
        env = xa.ENV
        lo, hi = -(2 ** (self.bits - 1)), 2 ** (self.bits - 1) - 1
        if env is not None:
            if z3.is_int_value(v.e):
                if not lo <= v.e.as_long() <= hi:
                    env.records.append(("store fits int%d #%d: %s" % (self.bits, len(env.records), what), "holds", z3.BoolVal(False), None, list(env.pc)))
            else:
                env.records.append(("store fits int%d #%d: %s" % (self.bits, len(env.records), what), "holds", z3.And(v.e >= lo, v.e <= hi), None, list(env.pc)))
        return SI(v.e, self.bits)

    def __getitem__(self, i):
        if isinstance(i, tuple):
            i = [k for k in i if k is not Ellipsis][-1]
        return self.items[int(i)]

    def __setitem__(self, i, v):
        if isinstance(i, tuple):
            i = [k for k in i if k is not Ellipsis][-1]
        self.items[int(i)] = self._fit(v, "element %d" % int(i))

    def astype(self, dtype):
        out = SIArr([], _bits_of(dtype))
        out.items = [out._fit(x, "astype") for x in self.items]
        return out

    def copy(self):
        return SIArr(list(self.items), self.bits)


class SISink:
    """write-only 2-d result array: every store is checked against the dtype width"""

    def __init__(self, bits):
        self.arr = SIArr([0], bits)
        self.stores = []

    def __setitem__(self, idx, v):
        self.stores.append((idx, self.arr._fit(v, "result%s" % (tuple(str(k) for k in idx) if isinstance(idx, tuple) else idx,))))


class SINP:
    """the few numpy functions the integer kernels use, on SI scalars (0-d 'arrays')"""
    int64 = "int64"
    int32 = "int32"
    int16 = "int16"
    int8 = "int8"
    uint64 = "int64"

    def arange(self, n, dtype=None):
        return SIArr(list(range(int(n))), _bits_of(dtype))

    def where(self, c, a, b):
        bits = max(getattr(a, "bits", 0), getattr(b, "bits", 0)) or 64
        return SI(z3.If(xa._b(c), SI.lift(a).e, SI.lift(b).e), bits)

    def ones(self, shape, dtype=None):
        return SI(1, _bits_of(dtype))

    def zeros(self, shape=None, dtype=None):
        return SI(0, _bits_of(dtype))

    def empty(self, shape, dtype=None):
        return SISink(_bits_of(dtype, 64))

    def minimum(self, a, b):
        a, b = SI.lift(a), SI.lift(b)
        return SI(z3.If(a.e <= b.e, a.e, b.e), max(a.bits, b.bits))

    def maximum(self, a, b):
        a, b = SI.lift(a), SI.lift(b)
        return SI(z3.If(a.e >= b.e, a.e, b.e), max(a.bits, b.bits))


def binom_table(N):
    """uninterpreted binom(n, k) with its value table for 0 <= n <= N, 0 <= k <= N + 1"""
    f = z3.Function("binom", z3.IntSort(), z3.IntSort(), z3.IntSort())
    ax = [f(z3.IntVal(a), z3.IntVal(b)) == math.comb(a, b) for a in range(N + 1) for b in range(N + 2)]
    return f, ax


def split_loop(fn, kind=ast.For):
    """(pre statements, loop node, post statements, globals, arg names) of the first top-level loop of fn"""
    g = getattr(fn, "py_func", fn)
    src = textwrap.dedent(inspect.getsource(g))
    tree = ast.parse(src)
    fdef = tree.body[0]
    body = [s for s in fdef.body if not (isinstance(s, ast.Expr) and isinstance(getattr(s, "value", None), ast.Constant))]
    for k, st in enumerate(body):
        if isinstance(st, kind):
            return body[:k], st, body[k + 1:], g.__globals__, [a.arg for a in fdef.args.args]
    raise xa.HarnessError("no top-level for loop in %s" % g.__qualname__)


class Returned(Exception):
    """a `return` was reached in statements executed outside their function"""
    def __init__(self, value):
        self.value = value


class _ReturnToRaise(ast.NodeTransformer):
    def visit_Return(self, node):
        val = node.value if node.value is not None else ast.Constant(value=None)
        return ast.copy_location(ast.Raise(exc=ast.Call(func=ast.Name(id="_pqverif_Returned", ctx=ast.Load()), args=[val], keywords=[]), cause=None), node)


def exec_stmts(stmts, ns, glb):
    import copy
    stmts = [_ReturnToRaise().visit(copy.deepcopy(st)) for st in stmts]
    glb = dict(glb)
    glb["_pqverif_Returned"] = Returned
    mod = ast.Module(body=list(stmts), type_ignores=[])
    ast.fix_missing_locations(mod)
    exec(compile(mod, "<pqverif loop step>", "exec"), glb, ns)
    return ns


def exec_once(body, ns, glb):
    """execute a loop body exactly once; `break` / `continue` inside it end the iteration"""
    loop = ast.For(target=ast.Name(id="_pqverif_once", ctx=ast.Store()), iter=ast.Tuple(elts=[ast.Constant(value=0)], ctx=ast.Load()),
                   body=list(body), orelse=[])
    return exec_stmts([loop], ns, glb)
