"""E-SI: symbolic machine integers.  Values are z3 Int terms (mathematical integers); every
arithmetic result is accompanied by a recorded no-overflow obligation for the stated width, so
that (when all of them are discharged) mathematical and machine semantics coincide.  Also a
helper that extracts one iteration of a `for` loop from a function's source (AST) so that an
inductive step can be executed from an arbitrary symbolic state."""
import ast
import math
import inspect
import textwrap

import z3

from . import xa


class SI:
    __slots__ = ("e", "bits")
    __array_ufunc__ = None

    def __init__(self, e, bits=64):
        self.e = e if z3.is_expr(e) else z3.IntVal(int(e))
        self.bits = bits

    @staticmethod
    def lift(x, bits=64):
        if isinstance(x, SI):
            return x
        if isinstance(x, xa.SymBool):
            return SI(z3.If(x.e, 1, 0), bits)
        return SI(z3.IntVal(int(x)), bits)

    def _res(self, e, o, what):
        bits = max(self.bits, o.bits)
        r = SI(z3.simplify(e), bits)
        env = xa.ENV
        if env is not None and not z3.is_int_value(r.e):
            lo, hi = -(2 ** (bits - 1)), 2 ** (bits - 1) - 1
            env.records.append(("no-overflow int%d #%d: %s" % (bits, len(env.records), what), "holds",
                                z3.And(r.e >= lo, r.e <= hi), None, list(env.pc)))
        return r

    def __add__(self, o):
        o = SI.lift(o, self.bits)
        return self._res(self.e + o.e, o, "add")

    __radd__ = __add__

    def __sub__(self, o):
        o = SI.lift(o, self.bits)
        return self._res(self.e - o.e, o, "sub")

    def __rsub__(self, o):
        o = SI.lift(o, self.bits)
        return o._res(o.e - self.e, self, "sub")

    def __mul__(self, o):
        o = SI.lift(o, self.bits)
        return self._res(self.e * o.e, o, "mul")

    __rmul__ = __mul__

    def __floordiv__(self, o):
        o = SI.lift(o, self.bits)
        env = xa.ENV
        if env is not None and not (z3.is_int_value(o.e) and o.e.as_long() > 0):
            # z3's Int division is floor division for positive divisors; anything else is reported
            env.records.append(("divisor>0 #%d" % len(env.records), "holds", o.e > 0, None, list(env.pc)))
        return SI(z3.simplify(self.e / o.e), max(self.bits, o.bits))

    def __neg__(self):
        return SI(-self.e, self.bits)

    def _cmp(self, o, f):
        o = SI.lift(o, self.bits)
        return xa.SymBool(f(self.e, o.e))

    def __lt__(self, o): return self._cmp(o, lambda a, b: a < b)
    def __le__(self, o): return self._cmp(o, lambda a, b: a <= b)
    def __gt__(self, o): return self._cmp(o, lambda a, b: a > b)
    def __ge__(self, o): return self._cmp(o, lambda a, b: a >= b)
    def __eq__(self, o): return self._cmp(o, lambda a, b: a == b)
    def __ne__(self, o): return self._cmp(o, lambda a, b: a != b)
    __hash__ = None

    @property
    def shape(self):
        return ()

    def __int__(self):
        if z3.is_int_value(self.e):
            return self.e.as_long()
        raise xa.HarnessError("symbolic machine integer forced to int")

    __index__ = __int__

    def __repr__(self):
        return "SI(%s:int%d)" % (self.e, self.bits)


class SINP:
    """the few numpy functions the integer kernels use, on SI scalars (0-d 'arrays')"""
    int64 = "int64"
    int32 = "int32"

    def where(self, c, a, b):
        bits = max(getattr(a, "bits", 0), getattr(b, "bits", 0)) or 64
        return SI(z3.If(xa._b(c), SI.lift(a).e, SI.lift(b).e), bits)

    def ones(self, shape, dtype=None):
        return SI(1, 32 if dtype in ("int32",) else 64)

    def zeros(self, shape, dtype=None):
        return SI(0, 32 if dtype in ("int32",) else 64)

    def minimum(self, a, b):
        a, b = SI.lift(a), SI.lift(b)
        return SI(z3.If(a.e <= b.e, a.e, b.e), max(a.bits, b.bits))

    def maximum(self, a, b):
        a, b = SI.lift(a), SI.lift(b)
        return SI(z3.If(a.e >= b.e, a.e, b.e), max(a.bits, b.bits))


def binom_table(N):
    """uninterpreted binom(n, k) with its value table for 0 <= n <= N, 0 <= k <= N + 1"""
    f = z3.Function("binom", z3.IntSort(), z3.IntSort(), z3.IntSort())
    ax = [f(z3.IntVal(a), z3.IntVal(b)) == math.comb(a, b) for a in range(N + 1) for b in range(N + 2)]
    return f, ax


def split_loop(fn):
    """(pre statements, for-node, post statements, globals) of the first top-level `for` loop of fn"""
    g = getattr(fn, "py_func", fn)
    src = textwrap.dedent(inspect.getsource(g))
    tree = ast.parse(src)
    fdef = tree.body[0]
    body = [s for s in fdef.body if not (isinstance(s, ast.Expr) and isinstance(getattr(s, "value", None), ast.Constant))]
    for k, st in enumerate(body):
        if isinstance(st, ast.For):
            return body[:k], st, body[k + 1:], g.__globals__, [a.arg for a in fdef.args.args]
    raise xa.HarnessError("no top-level for loop in %s" % g.__qualname__)


def exec_stmts(stmts, ns, glb):
    mod = ast.Module(body=list(stmts), type_ignores=[])
    ast.fix_missing_locations(mod)
    exec(compile(mod, "<pqverif loop step>", "exec"), glb, ns)
    return ns
