"""E-CH: CrossHair (symbolic execution of Python with z3) on generated harness functions that
call the real piquasso code.  One process per condition under a hard timeout."""
import os
import re
import sys
import json
import time
import shutil
import hashlib
import tempfile
import subprocess
from concurrent.futures import ThreadPoolExecutor

from . import core

PY = sys.executable


def _env():
    e = dict(os.environ)
    e["PYTHONPATH"] = core.VERIF + os.pathsep + e.get("PYTHONPATH", "")
    e["NUMBA_DISABLE_PERFORMANCE_WARNINGS"] = "1"
    e["PYTHONHASHSEED"] = "0"
    for k in ("OMP_NUM_THREADS", "OPENBLAS_NUM_THREADS", "MKL_NUM_THREADS", "NUMBA_NUM_THREADS", "TF_NUM_INTRAOP_THREADS"):
        e[k] = "1"
    e["TF_CPP_MIN_LOG_LEVEL"] = "3"
    return e


def _line_of(src, fname):
    for i, line in enumerate(src.split("\n"), 1):
        if re.match(r"def %s\(" % re.escape(fname), line):
            return i
    raise KeyError(fname)


def _run_one(path, line, timeout_s, per_path):
    t0 = time.time()
    cmd = [PY, "-m", "crosshair", "check", "--report_all", "--per_condition_timeout", str(timeout_s),
           "--per_path_timeout", str(per_path), "%s:%d" % (path, line)]
    try:
        p = subprocess.run(cmd, capture_output=True, text=True, timeout=timeout_s * 2 + 30, env=_env(), cwd=os.path.dirname(path))
        out = p.stdout + p.stderr
    except subprocess.TimeoutExpired:
        return "timeout", "killed after %ss" % (timeout_s * 2 + 30), time.time() - t0
    if "Confirmed over all paths" in out:
        return "confirmed", out.strip(), time.time() - t0
    m = re.search(r"error: (.*)", out)
    if m:
        return "counterexample", m.group(1).strip(), time.time() - t0
    if "Not confirmed" in out:
        return "not-confirmed", out.strip()[-300:], time.time() - t0
    if "Unable to meet precondition" in out:
        return "unable-to-meet-precondition", out.strip()[-300:], time.time() - t0
    return "unknown", out.strip()[-400:], time.time() - t0


def _replay_call(path, call, timeout_s=120):
    """run `call` (e.g. "f3((4, 3, 0))") against the harness module under plain Python.
    returns (violated: bool, text)"""
    mod = os.path.splitext(os.path.basename(path))[0]
    code = ("import sys; sys.path.insert(0, %r); import %s as H\n"
            "try:\n    r = H.%s\nexcept Exception as e:\n    print('REPLAY-EXC', type(e).__name__, e)\nelse:\n    print('REPLAY-RET', repr(r))\n"
            % (os.path.dirname(path), mod, call))
    try:
        p = subprocess.run([PY, "-c", code], capture_output=True, text=True, timeout=timeout_s, env=_env())
    except subprocess.TimeoutExpired:
        return False, "replay timeout"
    out = p.stdout.strip().split("\n")[-1] if p.stdout.strip() else p.stderr.strip()[-300:]
    if out.startswith("REPLAY-RET"):
        return out.strip() != "REPLAY-RET True", out
    if out.startswith("REPLAY-EXC"):
        return True, out
    return False, out


def run_conditions(rep, source, conditions, timeout_s=30, per_path=5, jobs=None, name="harness"):
    """conditions: list of dicts {fn, desc, [twin: bool], [timeout_s]}.  Harness functions carry
    `post: _` (return True iff the property holds).  One worker process imports the harness
    (and piquasso) once and forks one child per condition."""
    jobs = jobs or min(16, os.cpu_count() or 4)
    tmp = tempfile.mkdtemp(prefix="pqverif-ch-")
    path = os.path.join(tmp, "%s_%s.py" % (name, rep.prop))
    with open(path, "w") as f:
        f.write(source)
    try:
        job = {"path": path, "per_path": per_path, "jobs": jobs,
               "conditions": [{"fn": c["fn"], "timeout_s": c.get("timeout_s", timeout_s)} for c in conditions]}
        total = sum(c.get("timeout_s", timeout_s) * 2 + 20 for c in conditions) / max(jobs, 1) + 300
        try:
            p = subprocess.run([PY, "-m", "pqverif.ch_worker"], input=json.dumps(job), capture_output=True, text=True,
                               timeout=total, env=_env(), cwd=core.VERIF)
            results = json.loads(p.stdout) if p.stdout.strip() else {}
            if not results:
                rep.harness_errors.append("crosshair worker produced no result: %s" % p.stderr[-600:])
        except subprocess.TimeoutExpired:
            results = {}
            rep.harness_errors.append("crosshair worker exceeded %ds" % total)
        for c in conditions:
            fn = c["fn"]
            r = results.get(fn)
            if r is None:
                rep.inconclusive.append("%s: no result from the worker" % fn)
                continue
            msgs, t = r[0], r[1]
            replay_info = r[2] if len(r) > 2 else None
            rep.solver_s += t
            states = [m[0] for m in msgs]
            if any(s_ in ("POST_FAIL", "POST_ERR", "EXEC_ERR") for s_ in states):
                status = "counterexample"
            elif states and all(s_ == "CONFIRMED" for s_ in states):
                status = "confirmed"
            elif "PRE_UNSAT" in states:
                status = "unable-to-meet-precondition"
            elif "CANNOT_CONFIRM" in states:
                status = "not-confirmed"
            elif "HARD_TIMEOUT" in states:
                status = "timeout"
            else:
                status = "unknown:" + ",".join(states)[:80] + ":" + ";".join(m[1] for m in msgs)[:200]
            msg = "; ".join(m[1] for m in msgs)
            if c.get("twin"):
                key = "ch-twin-" + ("reached" if status == "counterexample" else status)
                rep.by_result[key] = rep.by_result.get(key, 0) + 1
                if status != "counterexample":
                    rep.inconclusive.append("%s: reachability twin not reached (%s) - group may be vacuous" % (fn, status))
                continue
            rep.obligations += 1
            rep.by_result["ch-" + status.split(":")[0]] = rep.by_result.get("ch-" + status.split(":")[0], 0) + 1
            if status == "confirmed":
                rep.discharged += 1
                rep.nontrivial_names.add(fn)
                if len(rep.samples) < 12 and (len(rep.samples) < 4 or hash(fn) % 5 == 0):
                    rep.samples.append({"condition": fn, "what": c.get("desc", ""), "result": "Confirmed over all paths", "crosshair_s": round(t, 2)})
            elif status == "counterexample":
                call = replay_info["call"] if replay_info else None
                kind, text = replay_info["replay"] if replay_info else ("NONE", "no call in message")
                violated = (kind == "RET" and text != "True") or kind == "EXC"
                if violated:
                    hid = hashlib.sha256((fn + source).encode()).hexdigest()[:10]
                    keep = os.path.join(core.VERIF, "replays", rep.prop, "%s-%s.py" % (fn, hid))
                    os.makedirs(os.path.dirname(keep), exist_ok=True)
                    shutil.copy(path, keep)
                    rep.violation(fn, {"desc": c.get("desc", "")}, fn, {}, "%s ; replay under plain Python: %s %s" % (msg, kind, text), kind="ch",
                                  extra={"call": call, "harness_file": keep})
                else:
                    rep.harness_errors.append("%s: CrossHair counterexample did not reproduce under plain Python: %s / %s %s" % (fn, msg, kind, text))
            else:
                rep.inconclusive.append("%s (%s): %s" % (fn, c.get("desc", ""), status))
    finally:
        shutil.rmtree(tmp, ignore_errors=True)
    return results


def replay(rec):
    """./check Cxx --replay file for kind 'ch' records; True = property holds on replay."""
    violated, text = _replay_call(rec["harness_file"], rec["call"])
    print("replay %s: %s" % (rec["call"], text))
    return not violated
