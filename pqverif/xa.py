"""E-XA: exact-algebra symbolic execution of numeric Python code over z3 Real terms.

The real piquasso functions are *run* on `SC` scalars (complex numbers whose real and
imaginary parts are z3 Real terms) held in ordinary numpy object arrays.  Transcendental
values are algebraic atoms with axioms (see DESIGN.md, E-XA).  The same harness code can be
run in 'num' mode on plain floats (used for replay and for engine validation).
"""
import math
import cmath
import itertools
from fractions import Fraction

import numpy
import z3


class HarnessError(Exception):
    pass


class PathAbort(Exception):
    """Raised to abandon an infeasible / over-budget path."""


ENV = None  # the active Env (one per process at a time)


def cur():
    if ENV is None:
        raise HarnessError("no active Env")
    return ENV


# --------------------------------------------------------------------------- reals
_RV_CACHE = {}


def RV(q):
    q = Fraction(q)
    r = _RV_CACHE.get(q)
    if r is None:
        r = z3.RealVal(str(q))
        _RV_CACHE[q] = r
    return r


ZERO = RV(0)
ONE = RV(1)


def is_const(t):
    return z3.is_rational_value(t)


def const_val(t):
    return Fraction(t.numerator_as_long(), t.denominator_as_long())


def radd(a, b):
    if is_const(a):
        if is_const(b):
            return RV(const_val(a) + const_val(b))
        if const_val(a) == 0:
            return b
    elif is_const(b) and const_val(b) == 0:
        return a
    return a + b


def rsub(a, b):
    if is_const(b):
        if is_const(a):
            return RV(const_val(a) - const_val(b))
        if const_val(b) == 0:
            return a
    elif is_const(a) and const_val(a) == 0:
        return -b
    return a - b


def rmul(a, b):
    if is_const(a):
        ca = const_val(a)
        if is_const(b):
            return RV(ca * const_val(b))
        if ca == 0:
            return ZERO
        if ca == 1:
            return b
        if ca == -1:
            return -b
    elif is_const(b):
        cb = const_val(b)
        if cb == 0:
            return ZERO
        if cb == 1:
            return a
        if cb == -1:
            return -a
    return a * b


def rneg(a):
    if is_const(a):
        return RV(-const_val(a))
    return -a


def recover_rational(x):
    """float -> the small rational that round-trips to the same double, or None."""
    if x != x or x in (float("inf"), float("-inf")):
        raise HarnessError("non-finite float reached the symbolic engine: %r" % x)
    if x == int(x) and abs(x) < 2 ** 53:
        return Fraction(int(x))
    f = Fraction(x)
    # NOTE: denominators up to 10**9 would "recover" any irrational double (a convergent with q ~ 1e9 is
    # within half an ulp); 10**6 leaves an error of ~1e-12, far above the rounding of a genuine rational.
    for lim in (10 ** 3, 10 ** 6):
        g = f.limit_denominator(lim)
        if float(g) == x:
            return g
    return None


def _is_small_multiple(x, unit, maxden=48):
    q = Fraction(x / unit).limit_denominator(maxden)
    if q != 0 and abs(float(q) * unit - x) <= 4e-16 * max(1.0, abs(x)):
        return q
    return None


# --------------------------------------------------------------------------- linear forms
class Lin:
    """Real affine form  sum_k coeff_k * sym_k + pi * pi_coeff  over parameter symbols."""

    __slots__ = ("terms", "pi")

    def __init__(self, terms=None, pi=0):
        self.terms = {k: v for k, v in (terms or {}).items() if v != 0}
        self.pi = Fraction(pi)

    def is_zero(self):
        return not self.terms and self.pi == 0

    def __add__(self, o):
        t = dict(self.terms)
        for k, v in o.terms.items():
            t[k] = t.get(k, 0) + v
        return Lin(t, self.pi + o.pi)

    def scale(self, q):
        q = Fraction(q)
        return Lin({k: v * q for k, v in self.terms.items()}, self.pi * q)

    def __neg__(self):
        return self.scale(-1)

    def key(self):
        return (tuple(sorted(self.terms.items())), self.pi)

    def __repr__(self):
        return "Lin(%r, pi=%s)" % (self.terms, self.pi)


LZ = Lin()


# --------------------------------------------------------------------------- scalars
class SymBool:
    __slots__ = ("e",)

    def __init__(self, e):
        self.e = e

    def __bool__(self):
        e = z3.simplify(self.e)
        if z3.is_true(e):
            return True
        if z3.is_false(e):
            return False
        return cur().decide(e)

    def __and__(self, o):
        return SymBool(z3.And(self.e, _b(o)))

    __rand__ = __and__

    def __or__(self, o):
        return SymBool(z3.Or(self.e, _b(o)))

    __ror__ = __or__

    def __invert__(self):
        return SymBool(z3.Not(self.e))


def _b(o):
    if isinstance(o, SymBool):
        return o.e
    if z3.is_expr(o):
        return o
    return z3.BoolVal(bool(o))


class SC:
    """Symbolic complex scalar.  re, im: z3 Real terms.  lin: optional (Lin, Lin) such that
    the value is exactly lin[0] + i*lin[1] as an affine form of the declared parameters."""

    __slots__ = ("re", "im", "lin", "inv")
    __array_priority__ = 1000

    def __array_ufunc__(self, ufunc, method, *inputs, out=None, **kwargs):
        """numpy ufuncs with an SC operand run their object loops (which call the Python operators /
        methods of the elements); also makes in-place array operations such as `arr /= sc` work."""
        if method != "__call__":
            return NotImplemented
        conv = []
        for x in inputs:
            if isinstance(x, SC):
                a = numpy.empty((), dtype=object)
                a[()] = x
                conv.append(a)
            elif isinstance(x, numpy.ndarray) and x.dtype != object:
                conv.append(x.astype(object))
            else:
                conv.append(x)
        res = ufunc(*conv, **kwargs)
        if out is not None:
            tgt = out[0]
            tgt[...] = res
            return tgt
        if isinstance(res, numpy.ndarray):
            if res.shape == ():
                return res[()]
            return res.view(XArr) if res.dtype == object else res
        return res

    def __init__(self, re, im=ZERO, lin=None, inv=None):
        self.re = re
        self.im = im
        self.lin = lin
        self.inv = inv

    # ---- construction
    @staticmethod
    def lift(x):
        if isinstance(x, SC):
            return x
        if isinstance(x, (bool, numpy.bool_)):
            return SC(RV(int(x)))
        if isinstance(x, (int, numpy.integer)):
            return SC(RV(int(x)), ZERO, (Lin(), Lin()) if int(x) == 0 else None)
        if isinstance(x, Fraction):
            return SC(RV(x))
        if isinstance(x, (float, numpy.floating)):
            return lift_float(float(x))
        if isinstance(x, (complex, numpy.complexfloating)):
            x = complex(x)
            a = lift_float(x.real)
            if x.imag == 0:
                return a
            b = lift_float(x.imag)
            lin = None
            if ENV is not None:
                lin = (ENV._const_lin(x.real), ENV._const_lin(x.imag))    # so that exp / cos of the constant stay exact
            return SC(a.re, b.re, lin)
        if isinstance(x, numpy.ndarray) and x.shape == ():
            return SC.lift(x[()] if x.dtype == object else x.item())
        raise TypeError("cannot lift %r to SC" % type(x))

    def is_real_const(self):
        return is_const(self.re) and is_const(self.im) and const_val(self.im) == 0

    def is_const(self):
        return is_const(self.re) and is_const(self.im)

    def const(self):
        return complex(float(const_val(self.re)), float(const_val(self.im)))

    # ---- arithmetic
    def __add__(self, o):
        if isinstance(o, numpy.ndarray):
            return _ew(lambda b: self + b, o)
        try:
            o = SC.lift(o)
        except TypeError:
            return NotImplemented
        lin = None
        sl, ol = _lins(self, o)
        if sl is not None:
            lin = (sl[0] + ol[0], sl[1] + ol[1])
        return SC(radd(self.re, o.re), radd(self.im, o.im), lin)

    __radd__ = __add__

    def __sub__(self, o):
        if isinstance(o, numpy.ndarray):
            return _ew(lambda b: self - b, o)
        try:
            o = SC.lift(o)
        except TypeError:
            return NotImplemented
        lin = None
        sl, ol = _lins(self, o)
        if sl is not None:
            lin = (sl[0] + (-ol[0]), sl[1] + (-ol[1]))
        return SC(rsub(self.re, o.re), rsub(self.im, o.im), lin)

    def __rsub__(self, o):
        if isinstance(o, numpy.ndarray):
            return _ew(lambda b: b - self, o)
        return SC.lift(o) - self

    def __mul__(self, o):
        if isinstance(o, numpy.ndarray):
            return _ew(lambda b: self * b, o)
        try:
            o = SC.lift(o)
        except TypeError:
            return NotImplemented
        lin = None
        if self.lin is not None and o.is_const():
            lin = _lin_scale(self.lin, o)
        elif o.lin is not None and self.is_const():
            lin = _lin_scale(o.lin, self)
        re = rsub(rmul(self.re, o.re), rmul(self.im, o.im))
        im = radd(rmul(self.re, o.im), rmul(self.im, o.re))
        inv = None
        if self.inv is not None and o.inv is not None:
            inv = self.inv * o.inv
        return SC(re, im, lin, inv)

    __rmul__ = __mul__

    def __neg__(self):
        lin = None if self.lin is None else (-self.lin[0], -self.lin[1])
        inv = None if self.inv is None else -self.inv
        return SC(rneg(self.re), rneg(self.im), lin, inv)

    def __pos__(self):
        return self

    def reciprocal(self):
        if self.inv is not None:
            r = self.inv
            if r.inv is None:
                r = SC(r.re, r.im, r.lin, self)
            return r
        if self.is_const():
            c = Fraction(const_val(self.re)), Fraction(const_val(self.im))
            n = c[0] * c[0] + c[1] * c[1]
            if n == 0:
                raise ZeroDivisionError("division by exact zero in symbolic execution")
            return SC(RV(c[0] / n), RV(-c[1] / n))
        return cur().define_reciprocal(self)

    def __truediv__(self, o):
        if isinstance(o, numpy.ndarray):
            return _ew(lambda b: self / b, o)
        try:
            o = SC.lift(o)
        except TypeError:
            return NotImplemented
        return self * o.reciprocal()

    def __rtruediv__(self, o):
        if isinstance(o, numpy.ndarray):
            return _ew(lambda b: b / self, o)
        return SC.lift(o) * self.reciprocal()

    def __pow__(self, k):
        if isinstance(k, SC) and k.is_real_const():
            k = const_val(k.re)
        if isinstance(k, (float, numpy.floating)) and float(k) == int(k):
            k = int(k)
        if isinstance(k, (float, numpy.floating)) and float(k) * 2 == int(float(k) * 2):
            k = Fraction(int(float(k) * 2), 2)
        if isinstance(k, Fraction) and k.denominator == 1:
            k = int(k)
        if isinstance(k, Fraction) and k.denominator == 2:
            return self.sqrt() ** int(k.numerator)
        if isinstance(k, (int, numpy.integer)):
            k = int(k)
            if k < 0:
                return self.reciprocal() ** (-k)
            out = SC(ONE)
            base = self
            while k:
                if k & 1:
                    out = out * base
                k >>= 1
                if k:
                    base = base * base
            return out
        raise HarnessError("unsupported power %r" % (k,))

    def __rpow__(self, b):
        # b ** self : only for exact integer exponents
        if self.is_real_const() and const_val(self.re).denominator == 1:
            return SC.lift(b) ** int(const_val(self.re))
        raise HarnessError("symbolic exponent")

    # ---- complex structure
    def conjugate(self):
        lin = None if self.lin is None else (self.lin[0], -self.lin[1])
        inv = None if self.inv is None else self.inv.conjugate()
        return SC(self.re, rneg(self.im), lin, inv)

    conj = conjugate

    @property
    def real(self):
        lin = None if self.lin is None else (self.lin[0], Lin())
        return SC(self.re, ZERO, lin)

    @property
    def imag(self):
        lin = None if self.lin is None else (self.lin[1], Lin())
        return SC(self.im, ZERO, lin)

    def is_real(self):
        if is_const(self.im):
            return const_val(self.im) == 0
        si = z3.simplify(self.im, som=True)
        if is_const(si) and const_val(si) == 0:
            self.im = ZERO
            return True
        return False

    def abs2(self):
        return SC(radd(rmul(self.re, self.re), rmul(self.im, self.im)))

    def __abs__(self):
        if self.is_real():
            return cur().abs_real(self)
        return self.abs2().sqrt()

    # ---- functions numpy's object loops dispatch to
    def sqrt(self):
        return cur().sqrt(self)

    def cos(self):
        return cur().trig(self)[0]

    def sin(self):
        return cur().trig(self)[1]

    def tan(self):
        c, s = cur().trig(self)
        return s / c

    def exp(self):
        return cur().exp(self)

    def cosh(self):
        return cur().hyp(self)[0]

    def sinh(self):
        return cur().hyp(self)[1]

    def tanh(self):
        ch, sh = cur().hyp(self)
        return sh / ch

    def log(self):
        return cur().log(self)

    def astype(self, *a, **k):
        return self

    def arctan(self):
        """arctan of a real symbolic value as an angle object: cos = 1/sqrt(1+x^2), sin = x/sqrt(1+x^2)"""
        if not self.is_real():
            raise HarnessError("arctan of a complex value")
        n = (SC(ONE) + self * self).sqrt()
        c = n.reciprocal()
        return Ang(c.re, (self * c).re)

    def angle(self):
        """the argument of a non-zero complex number as an angle object (records |z| != 0)"""
        if self.is_const():
            z = self.const()
            return Ang.of(SC.lift(cmath.phase(z)))
        r = self.abs2().sqrt()
        ir = r.reciprocal()
        return Ang((SC(self.re) * ir).re, (SC(self.im) * ir).re)

    def arctan2(self, o):
        raise HarnessError("arctan2 on symbolic values is not modelled")

    # ---- comparisons (real parts; complex comparison is rejected like numpy)
    def _cmp_args(self, o):
        o = SC.lift(o)
        return self.re, o.re

    def __lt__(self, o):
        a, b = self._cmp_args(o)
        return SymBool(a < b)

    def __le__(self, o):
        a, b = self._cmp_args(o)
        return SymBool(a <= b)

    def __gt__(self, o):
        a, b = self._cmp_args(o)
        return SymBool(a > b)

    def __ge__(self, o):
        a, b = self._cmp_args(o)
        return SymBool(a >= b)

    def __eq__(self, o):
        if isinstance(o, numpy.ndarray):
            return _ew(lambda b: self == b, o)
        try:
            o = SC.lift(o)
        except TypeError:
            return False
        return SymBool(z3.And(self.re == o.re, self.im == o.im))

    def __ne__(self, o):
        r = self.__eq__(o)
        if isinstance(r, SymBool):
            return SymBool(z3.Not(r.e))
        return not r

    __hash__ = None

    def __bool__(self):
        return bool(self != 0)

    def __float__(self):
        if self.is_real_const():
            return float(const_val(self.re))
        raise HarnessError("symbolic value forced to float (a C-level boundary was reached)")

    def __complex__(self):
        if self.is_const():
            return self.const()
        raise HarnessError("symbolic value forced to complex (a C-level boundary was reached)")

    def __int__(self):
        if self.is_real_const() and const_val(self.re).denominator == 1:
            return int(const_val(self.re))
        raise HarnessError("symbolic value forced to int")

    __index__ = __int__

    def __repr__(self):
        return "SC(%s, %s)" % (self.re, self.im)


class Ang:
    """a symbolic angle known only through its unit phase (c, s) = (cos, sin).  Produced by
    arctan / angle of symbolic values; supports +, -, negation, adding float multiples of pi or
    affine parameter forms, mod 2 pi, and multiplication by 1j (for exp(1j * angle))."""

    __array_priority__ = 2000
    dtype = numpy.dtype(float)

    def __init__(self, c, s):
        self.c, self.s = c, s

    @staticmethod
    def of(x):
        if isinstance(x, Ang):
            return x
        x = SC.lift(x)
        c, s = cur().trig(x)
        return Ang(c.re, s.re)

    def __add__(self, o):
        o = Ang.of(o)
        return Ang(rsub(rmul(self.c, o.c), rmul(self.s, o.s)), radd(rmul(self.s, o.c), rmul(self.c, o.s)))

    __radd__ = __add__

    def __neg__(self):
        return Ang(self.c, rneg(self.s))

    def __sub__(self, o):
        return self + (-Ang.of(o))

    def __rsub__(self, o):
        return Ang.of(o) + (-self)

    def __mod__(self, m):
        return self          # only multiples of 2 pi are used as moduli; the phase is unchanged

    def __mul__(self, o):
        if isinstance(o, complex) and o == 1j:
            return ImAng(self)
        if isinstance(o, complex) and o == -1j:
            return ImAng(-self)
        if isinstance(o, (int, float)) and o == 1:
            return self
        if isinstance(o, (int, float)) and o == -1:
            return -self
        raise HarnessError("symbolic angle multiplied by %r" % (o,))

    __rmul__ = __mul__

    def cos(self):
        return SC(self.c)

    def sin(self):
        return SC(self.s)

    def astype(self, *a, **k):
        return self

    def __repr__(self):
        return "Ang(%s, %s)" % (self.c, self.s)


class ImAng:
    """1j * angle"""

    def __init__(self, a):
        self.a = a

    def exp(self):
        return SC(self.a.c, self.a.s, None, SC(self.a.c, rneg(self.a.s)))

    def __neg__(self):
        return ImAng(-self.a)


def _lins(a, b):
    """affine forms of both operands of +/-, or (None, None)"""
    if a.lin is not None and b.lin is not None:
        return a.lin, b.lin
    if a.lin is not None and b.is_const() and ENV is not None:
        c = b.const()
        return a.lin, (ENV._const_lin(c.real), ENV._const_lin(c.imag))
    if b.lin is not None and a.is_const() and ENV is not None:
        c = a.const()
        return (ENV._const_lin(c.real), ENV._const_lin(c.imag)), b.lin
    return None, None


def _lin_scale(lin, c):
    """(a + ib) * (p + iq) for constant p + iq."""
    p, q = const_val(c.re), const_val(c.im)
    a, b = lin
    return (a.scale(p) + b.scale(-q), a.scale(q) + b.scale(p))


def lift_float(x):
    if x == 0:
        return SC(ZERO, ZERO, (Lin(), Lin()))
    q = recover_rational(x)
    if q is not None:
        return SC(RV(q))
    # multiples of pi (used as angles)
    m = _is_small_multiple(x, math.pi)
    if m is not None:
        env = cur()
        return SC(rmul(RV(m), env.pi_atom()), ZERO, (Lin(pi=m), Lin()))
    # +- sqrt of a small rational
    q2 = Fraction(x * x).limit_denominator(10 ** 4)
    if q2 > 0 and abs(math.sqrt(q2) - abs(x)) <= 4e-16 * abs(x):
        s = cur().sqrt_rational(q2)
        return s if x > 0 else -s
    env = cur()
    if env.allow_binary_floats:
        return SC(RV(Fraction(x)))
    raise HarnessError("unrecognised irrational float constant %r reached the symbolic engine" % x)


def lift_angle(x):
    """a float constant used as an angle: recognised constants as usual, anything else becomes a named
    constant angle whose cos/sin atoms are enclosed to 1e-12 (Env._trig_base)."""
    try:
        return lift_float(x)
    except HarnessError:
        return SC(RV(Fraction(x)), ZERO, (cur()._const_lin(x), Lin()))


def _unwrap(v):
    while isinstance(v, numpy.ndarray) and v.shape == ():
        v = v[()]
    return v


def _ew(f, arr):
    out = numpy.empty(arr.shape, dtype=object)
    for idx in numpy.ndindex(arr.shape):
        out[idx] = f(arr[idx])
    return out.view(XArr)


# --------------------------------------------------------------------------- arrays
class XArr(numpy.ndarray):
    """object ndarray of SC / Python numbers; only dtype conversions are overridden."""

    __array_priority__ = 100

    def astype(self, dtype, *a, **k):
        if self.dtype == object:
            try:
                kind = numpy.dtype(dtype).kind
            except TypeError:
                kind = "O"
            if kind in "fcO":
                return self.copy()
        return super().astype(dtype, *a, **k)

    def conj(self):
        return _ew(lambda v: v.conjugate() if hasattr(v, "conjugate") else v, self)

    conjugate = conj

    @property
    def real(self):
        return _ew(lambda v: SC.lift(_unwrap(v)).real if isinstance(_unwrap(v), SC) else complex(_unwrap(v)).real, self)

    @property
    def imag(self):
        return _ew(lambda v: SC.lift(_unwrap(v)).imag if isinstance(_unwrap(v), SC) else complex(_unwrap(v)).imag, self)

    def __array_finalize__(self, obj):
        pass


class EigArr(XArr):
    """result of the eigvals contract stub: the sign pattern (+, -, +, -, ...) is concrete"""

    def __ge__(self, other):
        return numpy.array([i % 2 == 0 for i in range(self.shape[0])])

    def __gt__(self, other):
        return numpy.array([i % 2 == 0 for i in range(self.shape[0])])


def has_sym(x):
    if isinstance(x, (SC, SymBool, Ang, ImAng)):
        return True
    if isinstance(x, numpy.ndarray):
        if x.dtype != object:
            return False
        return any(isinstance(v, (SC, SymBool, Ang, ImAng)) for v in x.flat)
    if isinstance(x, (list, tuple)):
        return any(has_sym(v) for v in x)
    return False


def xarr(x):
    a = numpy.asarray(x, dtype=object) if not isinstance(x, numpy.ndarray) else x
    if a.dtype != object:
        a = a.astype(object)
    return a.view(XArr)


def lift_array(a):
    """numeric ndarray -> XArr of SC"""
    a = numpy.asarray(a)
    out = numpy.empty(a.shape, dtype=object)
    for idx in numpy.ndindex(a.shape):
        out[idx] = SC.lift(a[idx])
    return out.view(XArr)


# --------------------------------------------------------------------------- numpy facade
def _unary(name):
    def f(self, x, *a, **k):
        if isinstance(x, (SC, Ang, ImAng)):
            return getattr(x, name)()
        if isinstance(x, numpy.ndarray) and x.dtype == object:
            return _ew(lambda v: getattr(v if isinstance(v, (Ang, ImAng)) else SC.lift(v), name)(), x)
        if isinstance(x, (list, tuple)) and has_sym(x):
            return _ew(lambda v: getattr(SC.lift(v), name)(), xarr(x))
        if self.exact_consts:
            # exact evaluation of constants so that no irrational float is created
            if name in ("cos", "sin", "tan") and isinstance(x, (float, numpy.floating)):
                return getattr(lift_angle(float(x)), name)()
            if isinstance(x, numpy.ndarray):
                return _ew(lambda v: getattr(SC.lift(v), name)(), x)
            if isinstance(x, (int, float, complex, numpy.number, Fraction)):
                return getattr(SC.lift(x), name)()
        return getattr(numpy, name)(x, *a, **k)

    return f


class XLinalg:
    def __getattr__(self, n):
        return getattr(numpy.linalg, n)

    def cholesky(self, a):
        if has_sym(a):
            raise HarnessError("cholesky (LAPACK) of a symbolic matrix")
        return numpy.linalg.cholesky(numpy.asarray(a, dtype=complex).real if not numpy.iscomplexobj(numpy.asarray(a, dtype=complex).real) else a)

    def det(self, a):
        if not has_sym(a):
            return numpy.linalg.det(a)
        return det(a)

    def inv(self, a):
        if not has_sym(a):
            return numpy.linalg.inv(a)
        return inv(a)

    def solve(self, a, b):
        if not has_sym(a) and not has_sym(b):
            return numpy.linalg.solve(a, b)
        return inv(a) @ b

    def eigvals(self, a):
        """LAPACK contract stub for a matrix whose spectrum is {+w_i, -w_i} with real w_i >= 0 (the
        only use in piquasso: GaussianState.fidelity): returns [w_0, -w_0, w_1, -w_1, ...] as
        uninterpreted atoms of the entries (congruence: equal entries -> equal eigenvalues)."""
        if not has_sym(a):
            return numpy.linalg.eigvals(a)
        env = cur()
        a = numpy.asarray(a, dtype=object)
        n = a.shape[0]
        args = []
        for v in a.flat:
            v = SC.lift(v)
            args += [v.re, v.im]

        def mk():
            ws = tuple(env.fresh("eigw") for _ in range(n // 2))
            for w in ws:
                env.axioms.append(w >= 0)
            env.defs.append(("eigpm", tuple(w.decl().name() for w in ws), tuple(args)))
            return ws
        ws = env._fun_atom2("eigvals%d" % n, tuple(args), mk)
        out = numpy.empty(n, dtype=object)
        for i, w in enumerate(ws):
            out[2 * i] = SC(w)
            out[2 * i + 1] = SC(-w)
        env.stubs.append("np.linalg.eigvals (LAPACK) -> contract stub: spectrum {+w_i, -w_i}, w_i uninterpreted functions of the matrix entries")
        return out.view(EigArr)

    def matrix_power(self, a, k):
        if not has_sym(a):
            return numpy.linalg.matrix_power(a, k)
        out = xarr(numpy.identity(len(a), dtype=object))
        for _ in range(k):
            out = out @ a
        return out

    def norm(self, a, *args, **kw):
        if not has_sym(a):
            return numpy.linalg.norm(a, *args, **kw)
        s = SC(ZERO)
        for v in numpy.asarray(a, dtype=object).flat:
            s = s + SC.lift(v).abs2()
        return s.sqrt()


def det(a):
    a = numpy.asarray(a, dtype=object)
    n = a.shape[0]
    if n == 0:
        return SC(ONE)
    if n == 1:
        return SC.lift(a[0, 0])
    if n == 2:
        return SC.lift(a[0, 0]) * a[1, 1] - SC.lift(a[0, 1]) * a[1, 0]
    total = SC(ZERO)
    for j in range(n):
        minor = numpy.delete(numpy.delete(a, 0, axis=0), j, axis=1)
        term = SC.lift(a[0, j]) * det(minor)
        total = total + term if j % 2 == 0 else total - term
    return total


def inv(a):
    a = numpy.asarray(a, dtype=object)
    n = a.shape[0]
    d = det(a)
    dinv = SC.lift(d).reciprocal()
    out = numpy.empty((n, n), dtype=object)
    for i in range(n):
        for j in range(n):
            minor = numpy.delete(numpy.delete(a, j, axis=0), i, axis=1)
            c = det(minor)
            out[i, j] = (c if (i + j) % 2 == 0 else -c) * dinv
    return out.view(XArr)


class XNP:
    """numpy facade: symbolic-aware versions of the functions that do not work on object
    arrays of SC; everything else is delegated to numpy."""

    exact_consts = True

    def __init__(self):
        self.linalg = XLinalg()
        self.pi = math.pi
        self.newaxis = None

    def __getattr__(self, n):
        return getattr(numpy, n)

    # dtype handling -----------------------------------------------------------
    @staticmethod
    def _objdt(dtype):
        if dtype is None:
            return None
        try:
            return numpy.dtype(dtype).kind in "fc"
        except TypeError:
            return True

    def array(self, x, dtype=None, **k):
        if has_sym(x):
            return xarr(numpy.array(x, dtype=object))
        if isinstance(x, numpy.ndarray) and x.dtype == object and self._objdt(dtype):
            return xarr(x.copy())
        return numpy.array(x, dtype=dtype, **k)

    def asarray(self, x, dtype=None, **k):
        if has_sym(x):
            return xarr(numpy.asarray(x, dtype=object))
        return numpy.asarray(x, dtype=dtype, **k)

    def zeros(self, shape, dtype=None, **k):
        if self._objdt(dtype) or dtype is None:
            a = numpy.empty(shape, dtype=object)
            a.fill(0)
            return a.view(XArr)
        return numpy.zeros(shape, dtype=dtype, **k)

    def ones(self, shape, dtype=None, **k):
        if self._objdt(dtype) or dtype is None:
            a = numpy.empty(shape, dtype=object)
            a.fill(1)
            return a.view(XArr)
        return numpy.ones(shape, dtype=dtype, **k)

    def empty(self, shape, dtype=None, **k):
        return self.zeros(shape, dtype=dtype)

    def zeros_like(self, a, dtype=None, **k):
        if (isinstance(a, numpy.ndarray) and a.dtype == object) or self._objdt(dtype):
            return self.zeros(numpy.shape(a), dtype=float)
        return numpy.zeros_like(a, dtype=dtype, **k)

    def empty_like(self, a, dtype=None, **k):
        return self.zeros_like(a, dtype=dtype)

    def ones_like(self, a, dtype=None, **k):
        if (isinstance(a, numpy.ndarray) and a.dtype == object) or self._objdt(dtype):
            return self.ones(numpy.shape(a), dtype=float)
        return numpy.ones_like(a, dtype=dtype, **k)

    def identity(self, n, dtype=None, **k):
        a = numpy.empty((n, n), dtype=object)
        a.fill(0)
        for i in range(n):
            a[i, i] = 1
        if dtype is not None and not self._objdt(dtype):
            return numpy.identity(n, dtype=dtype)
        return a.view(XArr)

    def eye(self, n, m=None, k=0, dtype=None, **kw):
        if dtype is not None and not self._objdt(dtype):
            return numpy.eye(n, m, k, dtype=dtype)
        return xarr(numpy.eye(n, m, k, dtype=int).astype(object))

    def diag(self, v, k=0):
        v = numpy.asarray(v)
        if v.dtype != object:
            return numpy.diag(v, k)
        if v.ndim == 1:
            n = len(v) + abs(k)
            a = self.zeros((n, n))
            for i, x in enumerate(v):
                if k >= 0:
                    a[i, i + k] = x
                else:
                    a[i - k, i] = x
            return a
        return xarr(numpy.diag(v, k))

    def copy(self, a, **k):
        r = numpy.copy(a, **k)
        if isinstance(r, numpy.ndarray) and r.dtype == object:
            return xarr(r)
        return r

    # functions ------------------------------------------------------------------
    sqrt = _unary("sqrt")
    cos = _unary("cos")
    sin = _unary("sin")
    tan = _unary("tan")
    exp = _unary("exp")
    cosh = _unary("cosh")
    sinh = _unary("sinh")
    tanh = _unary("tanh")
    log = _unary("log")
    arctan = _unary("arctan")

    def angle(self, x):
        if isinstance(x, SC):
            return x.angle()
        if isinstance(x, numpy.ndarray) and x.dtype == object:
            return _ew(lambda v: SC.lift(v).angle(), x)
        return numpy.angle(x)

    def mod(self, x, m):
        if isinstance(x, Ang):
            return x
        if isinstance(x, SC):
            if x.lin is not None and abs(float(m) - 2 * math.pi) < 1e-12:
                # value changes by a multiple of 2 pi: keep the affine form for trig use, free the polynomial value
                return SC(cur().fresh("mod2pi"), ZERO, x.lin)
            if x.is_real() and not isinstance(m, SC) and float(m) > 0:
                # y = x - m * k with an integer k and 0 <= y < m  (the value only: no affine / angle structure survives)
                env = cur()
                M = SC.lift(float(m)).re
                k = z3.Int("modk!%d" % next(env._fresh))
                y = env.fresh("mod")
                env.axioms.append(y == x.re - M * z3.ToReal(k))
                env.axioms.append(y >= 0)
                env.axioms.append(y < M)
                env.defs.append(("mod", (y.decl().name(),), (x.re, M)))
                return SC(y)
            raise HarnessError("np.mod on a symbolic value")
        return numpy.mod(x, m)

    def isscalar(self, x):
        return isinstance(x, SC) or numpy.isscalar(x)

    def real_if_close(self, x, *a, **k):
        if _isobj(x):
            return x
        return numpy.real_if_close(x, *a, **k)

    def conj(self, x):
        if isinstance(x, SC):
            return x.conjugate()
        if isinstance(x, numpy.ndarray) and x.dtype == object:
            return xarr(x).conj()
        return numpy.conj(x)

    conjugate = conj

    def real(self, x):
        if isinstance(x, SC):
            return x.real
        if isinstance(x, numpy.ndarray) and x.dtype == object:
            return xarr(x).real
        return numpy.real(x)

    def imag(self, x):
        if isinstance(x, SC):
            return x.imag
        if isinstance(x, numpy.ndarray) and x.dtype == object:
            return xarr(x).imag
        return numpy.imag(x)

    def abs(self, x):
        if isinstance(x, SC):
            return abs(x)
        if isinstance(x, numpy.ndarray) and x.dtype == object:
            return _ew(lambda v: abs(SC.lift(v)), x)
        return numpy.abs(x)

    absolute = abs

    def square(self, x):
        return x * x

    def power(self, x, k):
        if isinstance(x, SC) and isinstance(k, numpy.ndarray) and k.dtype != object:
            out = numpy.empty(k.shape, dtype=object)
            for idx in numpy.ndindex(k.shape):
                out[idx] = x ** int(k[idx]) if float(k[idx]) == int(k[idx]) else x ** float(k[idx])
            return out.view(XArr)
        if isinstance(x, SC) or isinstance(k, SC):
            return SC.lift(x) ** k
        if isinstance(x, numpy.ndarray) and x.dtype == object:
            if isinstance(k, numpy.ndarray):
                kk = numpy.broadcast_to(k, x.shape)
                out = numpy.empty(x.shape, dtype=object)
                for idx in numpy.ndindex(x.shape):
                    out[idx] = SC.lift(x[idx]) ** kk[idx]
                return out.view(XArr)
            return _ew(lambda v: SC.lift(v) ** k, x)
        if isinstance(k, numpy.ndarray) and k.dtype == object:
            return _ew(lambda e: SC.lift(x) ** e, k)
        return numpy.power(x, k)

    def isclose(self, a, b, *args, **kw):
        if has_sym(a) or has_sym(b) or _isobj(a) or _isobj(b):
            if isinstance(a, numpy.ndarray) or isinstance(b, numpy.ndarray):
                aa, bb = numpy.broadcast_arrays(numpy.asarray(a, dtype=object), numpy.asarray(b, dtype=object))
                out = numpy.empty(aa.shape, dtype=object)
                for idx in numpy.ndindex(aa.shape):
                    out[idx] = SC.lift(aa[idx]) == SC.lift(bb[idx])
                return out
            return SC.lift(a) == SC.lift(b)
        return numpy.isclose(a, b, *args, **kw)

    def allclose(self, a, b, *args, **kw):
        if has_sym(a) or has_sym(b) or _isobj(a) or _isobj(b):
            r = self.isclose(a, b)
            if isinstance(r, numpy.ndarray):
                conj = [x.e if isinstance(x, SymBool) else z3.BoolVal(bool(x)) for x in r.flat]
                return bool(SymBool(z3.And(conj)))
            return bool(r)
        return numpy.allclose(a, b, *args, **kw)

    def block(self, arrs):
        return _keep(numpy.block(arrs))

    def concatenate(self, arrs, *a, **k):
        return _keep(numpy.concatenate(arrs, *a, **k))

    def stack(self, arrs, *a, **k):
        return _keep(numpy.stack([numpy.asarray(x, dtype=object) if has_sym(x) else x for x in arrs], *a, **k))

    def transpose(self, a, *args):
        return numpy.transpose(a, *args)

    def einsum(self, *args, **kw):
        ops = [xarr(a) if isinstance(a, numpy.ndarray) and any(_isobj(b) for b in args) else a for a in args]
        kw.pop("optimize", None)
        return _keep(numpy.einsum(*ops, **kw))

    def outer(self, a, b):
        return _keep(numpy.multiply.outer(numpy.asarray(a).ravel(), numpy.asarray(b).ravel()))

    def kron(self, a, b):
        if not (_isobj(a) or _isobj(b)):
            return numpy.kron(a, b)
        a = numpy.asarray(a, dtype=object)
        b = numpy.asarray(b, dtype=object)
        out = numpy.empty((a.shape[0] * b.shape[0], a.shape[1] * b.shape[1]), dtype=object)
        for i in range(a.shape[0]):
            for j in range(a.shape[1]):
                for k in range(b.shape[0]):
                    for l in range(b.shape[1]):
                        out[i * b.shape[0] + k, j * b.shape[1] + l] = a[i, j] * b[k, l]
        return out.view(XArr)

    def trace(self, a, *args, **kw):
        return numpy.trace(a, *args, **kw)

    def where(self, cond, a=None, b=None):
        if a is None:
            return numpy.where(cond)
        if _isobj(cond):
            raise HarnessError("np.where on a symbolic condition")
        return _keep(numpy.where(cond, numpy.asarray(a, dtype=object) if has_sym(a) else a,
                                 numpy.asarray(b, dtype=object) if has_sym(b) else b))


def _isobj(a):
    return isinstance(a, SC) or (isinstance(a, numpy.ndarray) and a.dtype == object)


def _keep(r):
    if isinstance(r, numpy.ndarray) and r.dtype == object:
        return r.view(XArr)
    return r


xnp = XNP()


# --------------------------------------------------------------------------- environment
class Decl:
    def __init__(self, kind, **kw):
        self.kind = kind
        self.__dict__.update(kw)


class Env:
    """One execution of a harness.  mode 'sym': values are SC; 'num': values are floats."""

    def __init__(self, mode, values=None, schedule=None, path_budget=64, rng=None):
        self.mode = mode
        self.values = dict(values or {})
        self.rng = rng
        self.decl = {}            # name -> Decl  (declared inputs, in order)
        self.vars = {}            # z3 var name -> z3 var
        self.atoms = {}           # key -> z3 terms
        self._funs = []
        self._fun_reg = {}
        self.defs = []            # definitional atoms in creation order: (kind, names, arg terms)
        self.axioms = []          # (z3 bool)
        self.assumptions = []     # (label, z3 bool) in sym mode
        self.num_assumptions = [] # (label, ok) in num mode
        self.records = []         # (name, kind, lhs, rhs) see equal()/holds()
        self.pc = []              # path condition (sym)
        self.schedule = list(schedule or [])
        self._pos = 0
        self.alts = []            # alternative schedules discovered on this run
        self.allow_binary_floats = False
        self.stubs = []
        self.functions = []
        self._fresh = itertools.count()
        self._solver = None
        self.n_decisions = 0
        self.np = xnp if mode == "sym" else numpy

    # ---- activation
    def __enter__(self):
        global ENV
        self._prev = ENV
        ENV = self
        return self

    def __exit__(self, *a):
        global ENV
        ENV = self._prev
        return False

    # ---- variables
    def var(self, name):
        v = self.vars.get(name)
        if v is None:
            v = z3.Real(name)
            self.vars[name] = v
        return v

    def fresh(self, prefix):
        return self.var("%s!%d" % (prefix, next(self._fresh)))

    def _sample(self, name, lo, hi):
        if name in self.values:
            return float(self.values[name])
        if self.rng is None:
            raise HarnessError("no value for %r in num mode" % name)
        # rationals with small denominators: exactly representable in the symbolic evaluation
        v = self.rng.randint(int(lo * 16), int(hi * 16)) / 16.0
        self.values[name] = v
        return v

    # ---- declared inputs
    def real(self, name, lo=None, hi=None, nonzero=False):
        """a free real number (optionally bounded: lo <= x <= hi)."""
        self.decl[name] = Decl("real", lo=lo, hi=hi)
        if self.mode == "num":
            a = -4 if lo is None else lo
            b = 4 if hi is None else hi
            if lo is not None and hi is None:
                b = lo + 4
            if hi is not None and lo is None:
                a = hi - 4
            v = self._sample(name, a, b)
            if nonzero and v == 0:
                v = self.values[name] = 0.5
            return v
        v = self.var(name)
        if lo is not None:
            self.assumptions.append(("%s>=%s" % (name, lo), v >= RV(Fraction(lo))))
        if hi is not None:
            self.assumptions.append(("%s<=%s" % (name, hi), v <= RV(Fraction(hi))))
        if nonzero:
            self.assumptions.append(("%s!=0" % name, v != 0))
        return SC(v)

    def ivar(self, name, lo=None, hi=None):
        """a free integer (z3 Int) - returns the z3 term in sym mode, a Python int in num mode"""
        self.decl[name] = Decl("int", lo=lo, hi=hi)
        if self.mode == "num":
            if name in self.values:
                return int(round(float(self.values[name])))
            v = self.rng.randint(0 if lo is None else lo, (lo or 0) + 8 if hi is None else hi)
            self.values[name] = v
            return v
        v = self.vars.get(name)
        if v is None:
            v = self.vars[name] = z3.Int(name)
        if lo is not None:
            self.assumptions.append(("%s>=%s" % (name, lo), v >= lo))
        if hi is not None:
            self.assumptions.append(("%s<=%s" % (name, hi), v <= hi))
        return v

    def bvar(self, name, lo, hi, bits=64):
        """a free machine integer lo <= v <= hi as a z3 bit-vector (E-NS); a Python int in num mode"""
        self.decl[name] = Decl("int", lo=lo, hi=hi)
        if self.mode == "num":
            if name in self.values:
                return int(round(float(self.values[name])))
            v = self.rng.randint(lo, hi)
            self.values[name] = v
            return v
        v = self.vars.get(name)
        if v is None:
            v = self.vars[name] = z3.BitVec(name, bits)
        self.assumptions.append(("%s>=%s" % (name, lo), z3.UGE(v, lo)))
        self.assumptions.append(("%s<=%s" % (name, hi), z3.ULE(v, hi)))
        return v

    def pick_int(self, name, lo, hi):
        """a solver-chosen integer in lo..hi made concrete on each path (the explorer forks per value)"""
        v = self.ivar(name, lo, hi)
        if self.mode == "num":
            return int(v)
        for c in range(lo, hi + 1):
            if self.decide(v == c):
                return c
        raise PathAbort("no value")

    def pos(self, name):
        self.decl[name] = Decl("pos")
        if self.mode == "num":
            v = self._sample(name, 0.25, 4)
            return v
        v = self.var(name)
        self.assumptions.append(("%s>0" % name, v > 0))
        return SC(v)

    def cplx(self, name):
        self.decl[name] = Decl("cplx")
        if self.mode == "num":
            return complex(self._sample(name + ".re", -2, 2), self._sample(name + ".im", -2, 2))
        return SC(self.var(name + ".re"), self.var(name + ".im"))

    def param(self, name, denom=1):
        """a free real gate parameter that may be passed to cos/sin/exp(1j*.)/cosh/sinh.
        Trigonometric / hyperbolic atoms are declared for name/denom."""
        self.decl[name] = Decl("param", denom=denom)
        if self.mode == "num":
            return self._sample(name, -3, 3)
        v = self.var(name)
        return SC(v, ZERO, (Lin({name: Fraction(1)}), Lin()))

    def real_vec(self, name, n):
        return self._arr([self.real("%s%d" % (name, i)) for i in range(n)])

    def cplx_vec(self, name, n):
        return self._arr([self.cplx("%s%d" % (name, i)) for i in range(n)])

    def cplx_mat(self, name, n, m=None):
        m = n if m is None else m
        return self._arr([[self.cplx("%s%d%d" % (name, i, j)) for j in range(m)] for i in range(n)])

    def real_mat(self, name, n, m=None):
        m = n if m is None else m
        return self._arr([[self.real("%s%d%d" % (name, i, j)) for j in range(m)] for i in range(n)])

    def herm_mat(self, name, n):
        rows = [[None] * n for _ in range(n)]
        for i in range(n):
            rows[i][i] = self.real("%s%d%d" % (name, i, i)) + 0j if self.mode == "num" else self.real("%s%d%d" % (name, i, i))
            for j in range(i + 1, n):
                z = self.cplx("%s%d%d" % (name, i, j))
                rows[i][j] = z
                rows[j][i] = z.conjugate()
        return self._arr(rows)

    def sym_cplx_mat(self, name, n):
        rows = [[None] * n for _ in range(n)]
        for i in range(n):
            for j in range(i, n):
                z = self.cplx("%s%d%d" % (name, i, j))
                rows[i][j] = z
                rows[j][i] = z
        return self._arr(rows)

    def sym_real_mat(self, name, n):
        rows = [[None] * n for _ in range(n)]
        for i in range(n):
            for j in range(i, n):
                z = self.real("%s%d%d" % (name, i, j))
                rows[i][j] = z
                rows[j][i] = z
        return self._arr(rows)

    def _arr(self, rows):
        if self.mode == "num":
            return numpy.array(rows)
        return xarr(numpy.array(rows, dtype=object))

    def const(self, x):
        """lift a Python number for use in oracles"""
        if self.mode == "num":
            return x
        return SC.lift(x)

    # ---- atoms
    def pi_atom(self):
        a = self.atoms.get("pi")
        if a is None:
            a = self.var("pi!")
            self.atoms["pi"] = a
            self.axioms.append(a > RV(Fraction(314159265, 10 ** 8)))
            self.axioms.append(a < RV(Fraction(314159266, 10 ** 8)))
        return a

    def prime_atom(self, p):
        key = ("sqrt", p)
        a = self.atoms.get(key)
        if a is None:
            a = self.var("sqrt%d!" % p)
            self.atoms[key] = a
            self.axioms.append(a * a == p)
            self.axioms.append(a > 0)
        return a

    def sqrt_rational(self, q):
        q = Fraction(q)
        if q < 0:
            r = self.sqrt_rational(-q)
            return SC(ZERO, r.re)
        if q == 0:
            return SC(ZERO)
        m = q.numerator * q.denominator
        coef = Fraction(1, q.denominator)
        term = None
        p = 2
        while p * p <= m:
            e = 0
            while m % p == 0:
                m //= p
                e += 1
            coef *= p ** (e // 2)
            if e % 2:
                term = self.prime_atom(p) if term is None else term * self.prime_atom(p)
            p += 1
        if m > 1:
            term = self.prime_atom(m) if term is None else term * self.prime_atom(m)
        if term is None:
            return SC(RV(coef))
        val = rmul(RV(coef), term)
        # 1/sqrt(q) = sqrt(q)/q
        invv = rmul(RV(coef / q), term)
        out = SC(val)
        out.inv = SC(invv)
        return out

    def sqrt(self, x):
        if x.is_const():
            if const_val(x.im) == 0:
                return self.sqrt_rational(const_val(x.re))
            raise HarnessError("sqrt of a complex constant")
        if not x.is_real():
            return self.csqrt(x)
        key = ("gsqrt", x.re.sexpr())
        a = self.atoms.get(key)
        if a is None:
            y = self.fresh("sqrt")
            iy = None
            self.atoms[key] = a = (y, iy)
            self.axioms.append(y * y == x.re)
            self.axioms.append(y >= 0)
            self.assumptions.append(("sqrt-arg>=0", x.re >= 0))
            self.defs.append(("sqrt", (y.decl().name(),), (x.re,)))
        return SC(a[0])

    def abs_real(self, x):
        if is_const(x.re):
            return SC(RV(abs(const_val(x.re))))
        key = ("abs", x.re.sexpr())
        a = self.atoms.get(key)
        if a is None:
            y = self.fresh("abs")
            self.atoms[key] = a = y
            self.axioms.append(y * y == x.re * x.re)
            self.axioms.append(y >= 0)
            self.defs.append(("abs", (y.decl().name(),), (x.re,)))
        return SC(a)

    def define_reciprocal(self, x):
        """q with q*x == 1; records the assumption x != 0 (the float code divides there)."""
        key = ("recip", x.re.sexpr(), x.im.sexpr())
        a = self.atoms.get(key)
        if a is None:
            if x.is_real():
                q = self.fresh("inv")
                self.axioms.append(q * x.re == 1)
                self.defs.append(("recip", (q.decl().name(),), (x.re,)))
                a = SC(q)
            else:
                qr, qi = self.fresh("invr"), self.fresh("invi")
                self.axioms.append(qr * x.re - qi * x.im == 1)
                self.axioms.append(qr * x.im + qi * x.re == 0)
                self.defs.append(("crecip", (qr.decl().name(), qi.decl().name()), (x.re, x.im)))
                a = SC(qr, qi)
            self.atoms[key] = a
        r = SC(a.re, a.im, None, x)
        return r

    def _link(self, kind, arg, even, odd):
        """register (argument term, even-part atom, odd-part atom) of cos/sin or cosh/sinh and add
        congruence axioms against every earlier registration:  a == b -> equal,  a == -b -> even
        parts equal and odd parts opposite.  Sound: consequences of the functions being functions."""
        reg = self._fun_reg.setdefault(kind, [])
        powf = _cpow if kind == "trig" else _hpow
        for (a2, e2, o2) in reg:
            for k in (1, 2, 3, 4):
                ek, ok = powf(e2, o2, k)          # functions of k * a2
                self.axioms.append(z3.Implies(arg == k * a2, z3.And(even == ek, odd == ok)))
                self.axioms.append(z3.Implies(arg == -k * a2, z3.And(even == ek, odd == -ok)))
                if k > 1:
                    fk, gk = powf(even, odd, k)   # functions of k * arg
                    self.axioms.append(z3.Implies(k * arg == a2, z3.And(e2 == fk, o2 == gk)))
                    self.axioms.append(z3.Implies(k * arg == -a2, z3.And(e2 == fk, o2 == -gk)))
        reg.append((arg, even, odd))

    def _generic_pair(self, kind, x):
        """(even, odd) atoms for cos/sin ('trig') or cosh/sinh ('hyp') of a non-affine real term"""
        key = ("g" + kind, z3.simplify(x).sexpr())
        a = self.atoms.get(key)
        if a is None:
            e, o = self.fresh("g%s_even" % kind), self.fresh("g%s_odd" % kind)
            self.atoms[key] = a = (e, o)
            if kind == "trig":
                self.axioms.append(e * e + o * o == 1)
                self.defs.append(("gtrig", (e.decl().name(), o.decl().name()), (x,)))
            else:
                self.axioms.append(e * e - o * o == 1)
                self.axioms.append(e >= 1)
                self.axioms.append((x > 0) == (o > 0))
                self.axioms.append((x == 0) == (o == 0))
                self.defs.append(("ghyp", (e.decl().name(), o.decl().name()), (x,)))
            self._link(kind, x, e, o)
        return a

    def _trig_base(self, sym):
        key = ("trig", sym)
        a = self.atoms.get(key)
        if a is None:
            c, s = self.var("cos(%s)!" % self._base_name(sym)), self.var("sin(%s)!" % self._base_name(sym))
            self.atoms[key] = a = (c, s)
            self.axioms.append(c * c + s * s == 1)
            d = self.decl.get(sym)
            if d is not None and d.kind == "param":
                self._link("trig", self.var(sym) / d.denom, c, s)
                self.axioms.append(z3.Implies(self.var(sym) == 0, z3.And(c == 1, s == 0)))
            if d is not None and d.kind == "constangle":
                x = d.value
                for t, f in ((c, math.cos(x)), (s, math.sin(x))):
                    fr = Fraction(f)
                    self.axioms.append(t >= RV(fr - Fraction(1, 10 ** 12)))
                    self.axioms.append(t <= RV(fr + Fraction(1, 10 ** 12)))
        return a

    def _hyp_base(self, sym):
        key = ("hyp", sym)
        a = self.atoms.get(key)
        if a is None:
            n = self._base_name(sym)
            ch, sh = self.var("cosh(%s)!" % n), self.var("sinh(%s)!" % n)
            self.atoms[key] = a = (ch, sh)
            self.axioms.append(ch * ch - sh * sh == 1)
            self.axioms.append(ch >= 1)
            d = self.decl.get(sym)
            if d is not None and d.kind == "param":
                v = self.var(sym)
                self.axioms.append((v > 0) == (sh > 0))
                self.axioms.append((v == 0) == (sh == 0))
                self._link("hyp", v / d.denom, ch, sh)
        return a

    def sech_atom(self, sym):
        key = ("sech", sym)
        a = self.atoms.get(key)
        if a is None:
            ch, _ = self._hyp_base(sym)
            a = self.var("sech(%s)!" % self._base_name(sym))
            self.atoms[key] = a
            self.axioms.append(a * ch == 1)
        return a

    def _base_name(self, sym):
        d = self.decl.get(sym)
        den = getattr(d, "denom", 1) if d is not None else 1
        return sym if den == 1 else "%s/%d" % (sym, den)

    def _int_mult(self, sym, coeff):
        d = self.decl.get(sym)
        den = getattr(d, "denom", 1) if d is not None else 1
        k = coeff * den
        if k.denominator != 1:
            raise HarnessError("parameter %s used with multiple %s but declared with denom=%s" % (sym, coeff, den))
        return int(k)

    def _lin_of(self, x, what):
        x = SC.lift(x)
        if x.lin is None:
            if x.is_const():
                c = x.const()
                return (self._const_lin(c.real), self._const_lin(c.imag))
            raise HarnessError("%s of a non-affine symbolic argument %r" % (what, x))
        return x.lin

    def _const_lin(self, v):
        if v == 0:
            return Lin()
        m = _is_small_multiple(v, math.pi)
        if m is not None:
            return Lin(pi=m)
        name = "#c%r" % v
        if name not in self.decl:
            self.decl[name] = Decl("constangle", value=v)
        return Lin({name: Fraction(1)})

    def cos_sin_pi(self, q):
        """exact (cos, sin) of q*pi as z3 terms"""
        q = Fraction(q) % 2
        # reduce to first octant bookkeeping via table on denominators
        table = {
            1: lambda k: (1, 0),
        }
        den = q.denominator
        if den == 1:
            return (RV(1), ZERO) if q.numerator % 2 == 0 else (RV(-1), ZERO)
        if den == 2:
            return (ZERO, RV(1)) if q.numerator % 4 == 1 else (ZERO, RV(-1))
        # use addition from a base angle pi/den
        base = {
            4: (self.sqrt_rational(Fraction(1, 2)).re, self.sqrt_rational(Fraction(1, 2)).re),
            3: (RV(Fraction(1, 2)), self.sqrt_rational(Fraction(3, 4)).re),
            6: (self.sqrt_rational(Fraction(3, 4)).re, RV(Fraction(1, 2))),
        }.get(den)
        if base is None:
            key = ("trigpi", den)
            base = self.atoms.get(key)
            if base is None:
                c, s = self.var("cos(pi/%d)!" % den), self.var("sin(pi/%d)!" % den)
                self.atoms[key] = base = (c, s)
                self.axioms.append(c * c + s * s == 1)
                # (c + i s)^den == -1 pins the atom together with the enclosure
                cc, ss = _cpow(c, s, den)
                self.axioms.append(cc == -1)
                self.axioms.append(ss == 0)
                fc, fs = Fraction(math.cos(math.pi / den)), Fraction(math.sin(math.pi / den))
                eps = Fraction(1, 10 ** 9)
                self.axioms += [c > RV(fc - eps), c < RV(fc + eps), s > RV(fs - eps), s < RV(fs + eps)]
        return _cpow(base[0], base[1], q.numerator)

    def trig_lin(self, lin):
        C, S = self.cos_sin_pi(lin.pi)
        for sym, coeff in sorted(lin.terms.items()):
            k = self._int_mult(sym, coeff)
            c1, s1 = self._trig_base(sym)
            ck, sk = _cpow(c1, s1, k)
            C, S = rsub(rmul(C, ck), rmul(S, sk)), radd(rmul(S, ck), rmul(C, sk))
        return C, S

    def hyp_lin(self, lin):
        if lin.pi != 0:
            raise HarnessError("hyperbolic function of a multiple of pi")
        C, S = ONE, ZERO
        for sym, coeff in sorted(lin.terms.items()):
            k = self._int_mult(sym, coeff)
            c1, s1 = self._hyp_base(sym)
            ck, sk = _hpow(c1, s1, k)
            C, S = radd(rmul(C, ck), rmul(S, sk)), radd(rmul(S, ck), rmul(C, sk))
        return C, S

    def trig(self, x):
        x = SC.lift(x)
        if x.lin is None and not x.is_const():
            if not x.is_real():
                raise HarnessError("cos/sin of a complex symbolic argument")
            c, s = self._generic_pair("trig", x.re)
            return SC(c), SC(s)
        re, im = self._lin_of(x, "cos/sin")
        if not im.is_zero():
            raise HarnessError("cos/sin of a complex argument")
        c, s = self.trig_lin(re)
        return SC(c), SC(s)

    def hyp(self, x):
        x = SC.lift(x)
        if x.lin is None and not x.is_const():
            if not x.is_real():
                raise HarnessError("cosh/sinh of a complex symbolic argument")
            c, s = self._generic_pair("hyp", x.re)
            return SC(c), SC(s)
        re, im = self._lin_of(x, "cosh/sinh")
        if not im.is_zero():
            raise HarnessError("cosh/sinh of a complex argument")
        c, s = self.hyp_lin(re)
        out_c = SC(c)
        if len(re.terms) == 1:
            (sym, coeff), = re.terms.items()
            if abs(self._int_mult(sym, coeff)) == 1:
                out_c.inv = SC(self.sech_atom(sym))
        return out_c, SC(s)

    def _fun_atom(self, kind, arg, make):
        """atom for an uninterpreted real function of a (non-affine) term, memoised by the term,
        with congruence axioms  arg_i == arg_j -> f_i == f_j  against earlier atoms of the kind."""
        key = ("fun", kind, z3.simplify(arg).sexpr())
        a = self.atoms.get(key)
        if a is None:
            a = make()
            self.atoms[key] = a
            for (k2, a2, arg2) in self._funs:
                if k2 == kind:
                    outs = a if isinstance(a, tuple) else (a,)
                    outs2 = a2 if isinstance(a2, tuple) else (a2,)
                    self.axioms.append(z3.Implies(arg == arg2, z3.And([u == v for u, v in zip(outs, outs2)])))
            self._funs.append((kind, a, arg))
        return a

    def _gexp(self, x):
        out = SC(ONE)
        if not (is_const(x.im) and const_val(x.im) == 0):
            def mk():
                c, s = self.fresh("gcos"), self.fresh("gsin")
                self.axioms.append(c * c + s * s == 1)
                self.defs.append(("gtrig", (c.decl().name(), s.decl().name()), (x.im,)))
                return (c, s)
            c, s = self._fun_atom("trig", x.im, mk)
            out = SC(c, s, None, SC(c, -s))
        if not (is_const(x.re) and const_val(x.re) == 0):
            def mk2():
                e, ie = self.fresh("gexp"), self.fresh("gexpinv")
                self.axioms.append(e > 0)
                self.axioms.append(e * ie == 1)
                self.defs.append(("gexp", (e.decl().name(), ie.decl().name()), (x.re,)))
                return (e, ie)
            e, ie = self._fun_atom("exp", x.re, mk2)
            out = SC(e, ZERO, None, SC(ie)) * out
        return out

    def csqrt(self, x):
        """principal square root of a symbolic complex number"""
        def mk():
            yr, yi = self.fresh("csqrtr"), self.fresh("csqrti")
            self.axioms.append(yr * yr - yi * yi == x.re)
            self.axioms.append(2 * yr * yi == x.im)
            self.axioms.append(yr >= 0)
            self.axioms.append(z3.Implies(yr == 0, yi >= 0))
            self.defs.append(("csqrt", (yr.decl().name(), yi.decl().name()), (x.re, x.im)))
            return (yr, yi)
        yr, yi = self._fun_atom2("csqrt", (x.re, x.im), mk)
        return SC(yr, yi)

    def _fun_atom2(self, kind, args, make):
        key = ("fun", kind) + tuple(z3.simplify(a).sexpr() for a in args)
        a = self.atoms.get(key)
        if a is None:
            a = make()
            self.atoms[key] = a
            for (k2, a2, args2) in self._funs:
                if k2 == kind:
                    self.axioms.append(z3.Implies(z3.And([u == v for u, v in zip(args, args2)]),
                                                  z3.And([u == v for u, v in zip(a, a2)])))
            self._funs.append((kind, a, args))
        return a

    def exp(self, x):
        x = SC.lift(x)
        if x.is_const() and x.const() == 0:
            return SC(ONE)
        if x.lin is None and not x.is_const():
            return self._gexp(x)
        re, im = self._lin_of(x, "exp")
        out = SC(ONE)
        if not im.is_zero():
            c, s = self.trig_lin(im)
            nc, ns = self.trig_lin(-im)
            out = SC(c, s, None, SC(nc, ns))
        if not re.is_zero():
            ch, sh = self.hyp_lin(re)
            mag = SC(radd(ch, sh), ZERO, None, SC(rsub(ch, sh)))
            out = mag * out
        return out

    def log(self, x):
        raise HarnessError("log is not modelled")

    # ---- branching
    def decide(self, cond):
        """choose the outcome of a branch on a symbolic condition (DFS over re-executions)."""
        if self.mode != "sym":
            raise HarnessError("symbolic branch in num mode")
        i = self._pos
        self._pos += 1
        self.n_decisions += 1
        if i < len(self.schedule):
            choice = self.schedule[i]
        else:
            feas = []
            for c in (True, False):
                s = z3.Solver()
                s.set("timeout", 20000)
                for a in self._closure([cond] + self.pc):
                    s.add(a)
                s.add(self.pc)
                s.add(cond if c else z3.Not(cond))
                r = s.check()
                if r != z3.unsat:   # unknown is treated as feasible (sound: more paths)
                    feas.append(c)
            if not feas:
                raise PathAbort("infeasible path")
            choice = feas[0]
            self.schedule.append(choice)
            if len(feas) > 1:
                self.alts.append(self.schedule[:i] + [feas[1]])
        self.pc.append(cond if choice else z3.Not(cond))
        return choice

    def _closure(self, goals):
        """axioms and assumptions transitively sharing variables with the goals"""
        want = set()
        for g in goals:
            want |= _vars(g)
        pool = [(a, _vars(a)) for a in self.axioms] + [(a, _vars(a)) for _, a in self.assumptions]
        out = []
        changed = True
        used = [False] * len(pool)
        while changed:
            changed = False
            for k, (a, vs) in enumerate(pool):
                if not used[k] and (vs & want):
                    used[k] = True
                    out.append(a)
                    if not vs <= want:
                        want |= vs
                    changed = True
        return out

    def let(self, x, prefix="let"):
        """name a value: fresh variables constrained to equal x (a definitional extension, equisatisfiable).
        Keeps the polynomials the solver sees shallow; in num mode the value itself."""
        if self.mode == "num":
            return x
        if isinstance(x, numpy.ndarray):
            return _ew(lambda v: self.let(v, prefix), x)
        x = SC.lift(x)
        parts = []
        for t in (x.re, x.im):
            if is_const(t):
                parts.append(t)
            else:
                v = self.fresh(prefix)
                self.axioms.append(v == t)
                self.defs.append(("let", (v.decl().name(),), (t,)))
                parts.append(v)
        return SC(parts[0], parts[1], x.lin)

    def enclose(self, x, name):
        """Compositional interval cut for CONSTANT values (terms over constant atoms and earlier enclosures): a
        fresh variable b with lo <= b <= hi replaces the term t, and 'lo <= t <= hi' is recorded as an obligation
        the solver must prove from the enclosures of t's own variables.  Sound for unsat verdicts (b ranges over a
        superset of the one real value); models are replayed on the float code as always.  The half-width is a
        first-order error estimate - the solver, not the estimate, carries the soundness."""
        if self.mode == "num":
            if isinstance(x, numpy.ndarray):
                for idx in numpy.ndindex(x.shape):
                    if x[idx] != 0 and x[idx] != 1:
                        self.records.append(("enclosure %s%s" % (name, list(idx)), "holds", True, None, []))
            else:
                self.records.append(("enclosure %s" % name, "holds", True, None, []))
            return x
        if isinstance(x, numpy.ndarray):
            out = numpy.empty(x.shape, dtype=object)
            for idx in numpy.ndindex(x.shape):
                v = SC.lift(x[idx])
                out[idx] = v if v.is_const() else self.enclose(v, "%s%s" % (name, list(idx)))
            return out.view(XArr)
        x = SC.lift(x)
        if not hasattr(self, "_box"):
            self._box = {}
        val = complete_valuation(self, atom_valuation(self, {}))
        parts, conds = [], []
        for t in (x.re, x.im):
            if is_const(t):
                parts.append(t)
                continue
            vs = [v for v in _vars(t) if not v.startswith("fn:")]
            v0 = eval_term(t, val)
            err = 1e-13
            for vn in vs:
                dv = self._box.get(vn, 1e-12 if ("(#c" in vn) else 0.0)
                if dv:
                    h = 1e-6
                    val2 = dict(val)
                    val2[vn] = val[vn] + h
                    err += abs(eval_term(t, val2) - v0) / h * dv * 1.5
            scale = 10 ** 12
            lo = Fraction(math.floor((v0 - err) * scale) - 1, scale)
            hi = Fraction(math.ceil((v0 + err) * scale) + 1, scale)
            b = self.fresh("box")
            self.axioms.append(b >= RV(lo))
            self.axioms.append(b <= RV(hi))
            self._box[b.decl().name()] = float(hi - lo) / 2
            self.defs.append(("let", (b.decl().name(),), (t,)))
            conds.append(z3.And(t >= RV(lo), t <= RV(hi)))
            parts.append(b)
        self.records.append(("enclosure %s" % name, "holds", SymBool(z3.And(*conds)) if conds else True, None, list(self.pc)))
        return SC(parts[0], parts[1])

    # ---- assumptions / obligations
    def assume(self, label, cond):
        if self.mode == "sym":
            self.assumptions.append((label, _b(cond)))
        else:
            self.num_assumptions.append((label, bool(cond)))

    def assume_equal(self, label, a, b, tol=1e-9):
        if self.mode == "sym":
            for idx, x, y in _pairs(a, b):
                x, y = SC.lift(x), SC.lift(y)
                e = z3.simplify(z3.And(x.re == y.re, x.im == y.im))
                if not z3.is_true(e):
                    self.assumptions.append(("%s%s" % (label, idx), e))
        else:
            ok = numpy.allclose(numpy.asarray(a, dtype=complex), numpy.asarray(b, dtype=complex), atol=tol, rtol=tol)
            self.num_assumptions.append((label, bool(ok)))

    def equal(self, name, lhs, rhs):
        """obligation: lhs == rhs entrywise."""
        for idx, x, y in _pairs(lhs, rhs):
            self.records.append(("%s%s" % (name, idx), "eq", x, y, list(self.pc)))

    def holds(self, name, cond):
        """obligation: cond is true (cond: SymBool / z3 Bool in sym mode, bool in num mode)."""
        self.records.append((name, "holds", cond, None, list(self.pc)))

    def ge(self, name, a, b):
        if self.mode == "sym":
            self.holds(name, SC.lift(a) >= SC.lift(b))
        else:
            self.records.append((name, "ge", a, b, []))


def _pairs(a, b):
    aa = numpy.asarray(a, dtype=object) if not isinstance(a, numpy.ndarray) else a
    bb = numpy.asarray(b, dtype=object) if not isinstance(b, numpy.ndarray) else b
    if aa.shape != bb.shape:
        try:
            aa, bb = numpy.broadcast_arrays(aa, bb)
        except ValueError:
            raise HarnessError("shape mismatch in obligation: %s vs %s" % (aa.shape, bb.shape))
    if aa.shape == ():
        yield "", aa.item() if aa.dtype != object else aa[()], bb.item() if bb.dtype != object else bb[()]
        return
    for idx in numpy.ndindex(aa.shape):
        yield "[%s]" % ",".join(map(str, idx)), aa[idx], bb[idx]


def _cpow(c, s, k):
    """(c + i s)^k on the unit circle -> (re, im); negative k = conjugate."""
    neg = k < 0
    k = abs(k)
    rc, rs = ONE, ZERO
    bc, bs = c, s
    while k:
        if k & 1:
            rc, rs = rsub(rmul(rc, bc), rmul(rs, bs)), radd(rmul(rc, bs), rmul(rs, bc))
        k >>= 1
        if k:
            bc, bs = rsub(rmul(bc, bc), rmul(bs, bs)), rmul(RV(2), rmul(bc, bs))
    return (rc, rneg(rs)) if neg else (rc, rs)


def _hpow(c, s, k):
    """(cosh, sinh) of k*t from (cosh t, sinh t)."""
    neg = k < 0
    k = abs(k)
    rc, rs = ONE, ZERO
    bc, bs = c, s
    while k:
        if k & 1:
            rc, rs = radd(rmul(rc, bc), rmul(rs, bs)), radd(rmul(rc, bs), rmul(rs, bc))
        k >>= 1
        if k:
            bc, bs = radd(rmul(bc, bc), rmul(bs, bs)), rmul(RV(2), rmul(bc, bs))
    return (rc, rneg(rs)) if neg else (rc, rs)


_VARS_CACHE = {}


def _vars(e):
    key = e.get_id()
    r = _VARS_CACHE.get(key)
    if r is not None and r[0].eq(e):
        return r[1]
    out = set()
    seen = set()
    stack = [e]
    while stack:
        t = stack.pop()
        i = t.get_id()
        if i in seen:
            continue
        seen.add(i)
        if z3.is_const(t):
            if t.decl().kind() == z3.Z3_OP_UNINTERPRETED:
                out.add(t.decl().name())
        else:
            if z3.is_app(t) and t.decl().kind() == z3.Z3_OP_UNINTERPRETED:
                out.add("fn:" + t.decl().name())     # uninterpreted functions link obligations to their table axioms
            stack.extend(t.children())
    _VARS_CACHE[key] = (e, frozenset(out))
    return _VARS_CACHE[key][1]


# --------------------------------------------------------------------------- evaluation of terms at floats
def eval_term(t, val, cache=None):
    """evaluate a z3 Real/Bool term under a {var name: float} valuation (floats)."""
    if cache is None:
        cache = {}
    stack = [(t, False)]
    while stack:
        e, ready = stack.pop()
        i = e.get_id()
        if i in cache:
            continue
        if z3.is_int_value(e) or z3.is_bv_value(e):
            cache[i] = e.as_long()
            continue
        if z3.is_fprm_value(e):
            cache[i] = str(e)
            continue
        if z3.is_fp_value(e):
            cache[i] = float(e.as_string()) if hasattr(e, "as_string") else float(str(e))
            continue
        if z3.is_rational_value(e):
            cache[i] = e.numerator_as_long() / e.denominator_as_long()
            continue
        if z3.is_algebraic_value(e):
            cache[i] = float(e.approx(20).as_fraction())
            continue
        k = e.decl().kind()
        ch = e.children()
        if not ch:
            if k == z3.Z3_OP_UNINTERPRETED:
                n = e.decl().name()
                if n not in val:
                    raise KeyError(n)
                cache[i] = val[n]
            elif k == z3.Z3_OP_TRUE:
                cache[i] = True
            elif k == z3.Z3_OP_FALSE:
                cache[i] = False
            else:
                raise HarnessError("eval_term: unsupported leaf %s" % e)
            continue
        if not ready:
            stack.append((e, True))
            for c in ch:
                if c.get_id() not in cache:
                    stack.append((c, False))
            continue
        v = [cache[c.get_id()] for c in ch]
        if k == z3.Z3_OP_ADD:
            r = sum(v)
        elif k == z3.Z3_OP_MUL:
            r = 1.0
            for x in v:
                r *= x
        elif k == z3.Z3_OP_SUB:
            r = v[0] - sum(v[1:])
        elif k == z3.Z3_OP_UMINUS:
            r = -v[0]
        elif k == z3.Z3_OP_DIV:
            r = v[0] / v[1]
        elif k == z3.Z3_OP_POWER:
            r = v[0] ** v[1]
        elif k == z3.Z3_OP_IDIV:
            r = (int(round(v[0])) // int(round(v[1]))) if int(round(v[1])) else 0
        elif k == z3.Z3_OP_MOD:
            r = (int(round(v[0])) % int(round(v[1]))) if int(round(v[1])) else 0
        elif k == z3.Z3_OP_TO_REAL:
            r = float(v[0])
        elif k == z3.Z3_OP_EQ:
            r = _close(v[0], v[1])
        elif k == z3.Z3_OP_DISTINCT:
            r = not _close(v[0], v[1])
        elif k == z3.Z3_OP_LE:
            r = v[0] <= v[1] + 1e-9
        elif k == z3.Z3_OP_GE:
            r = v[0] >= v[1] - 1e-9
        elif k == z3.Z3_OP_LT:
            r = v[0] < v[1]
        elif k == z3.Z3_OP_GT:
            r = v[0] > v[1]
        elif k == z3.Z3_OP_AND:
            r = all(v)
        elif k == z3.Z3_OP_OR:
            r = any(v)
        elif k == z3.Z3_OP_NOT:
            r = not v[0]
        elif k == z3.Z3_OP_ITE:
            r = v[1] if v[0] else v[2]
        elif k == z3.Z3_OP_IMPLIES:
            r = (not v[0]) or v[1]
        # machine integers (non-negative, no wrap-around within the stated bounds) and IEEE doubles (E-NS)
        elif k == z3.Z3_OP_BADD:
            r = sum(v)
        elif k == z3.Z3_OP_BMUL:
            r = 1
            for x in v:
                r *= x
        elif k == z3.Z3_OP_BSUB:
            r = v[0] - v[1]
        elif k in (z3.Z3_OP_BUDIV, z3.Z3_OP_BUDIV_I):
            r = v[0] // v[1] if v[1] else 0
        elif k in (z3.Z3_OP_ULEQ, z3.Z3_OP_SLEQ):
            r = v[0] <= v[1]
        elif k in (z3.Z3_OP_UGEQ, z3.Z3_OP_SGEQ):
            r = v[0] >= v[1]
        elif k == z3.Z3_OP_FPA_TO_FP:
            r = float(v[-1])
        elif k == z3.Z3_OP_FPA_MUL:
            r = v[1] * v[2]
        elif k == z3.Z3_OP_FPA_DIV:
            r = v[1] / v[2]
        elif k == z3.Z3_OP_FPA_ADD:
            r = v[1] + v[2]
        elif k == z3.Z3_OP_FPA_SUB:
            r = v[1] - v[2]
        elif k == z3.Z3_OP_FPA_TO_SBV:
            mode = v[0]
            r = int(v[1]) if "Zero" in mode or "RTZ" in mode else (math.floor(v[1]) if "Negative" in mode or "RTN" in mode else round(v[1]))
        else:
            raise HarnessError("eval_term: unsupported operator %s" % e.decl())
        cache[i] = r
    return cache[t.get_id()]


def _close(a, b):
    if isinstance(a, bool) or isinstance(b, bool):
        return a == b
    return abs(a - b) <= 1e-9 * max(1.0, abs(a), abs(b))


def atom_valuation(env, values):
    """{z3 var name: float} for all vars of env given the declared-input values."""
    val = {}
    for name, d in env.decl.items():
        if d.kind in ("real", "pos", "int"):
            val[name] = float(values[name])
        elif d.kind == "cplx":
            val[name + ".re"] = float(values[name + ".re"])
            val[name + ".im"] = float(values[name + ".im"])
        elif d.kind == "param":
            val[name] = float(values[name])
    for key, a in env.atoms.items():
        if key == "pi":
            val[a.decl().name()] = math.pi
        elif key[0] == "sqrt":
            val[a.decl().name()] = math.sqrt(key[1])
        elif key[0] == "trig":
            sym = key[1]
            d = env.decl[sym]
            base = (d.value if d.kind == "constangle" else float(values[sym]) / d.denom)
            val[a[0].decl().name()] = math.cos(base)
            val[a[1].decl().name()] = math.sin(base)
        elif key[0] == "hyp":
            sym = key[1]
            base = float(values[sym]) / env.decl[sym].denom
            val[a[0].decl().name()] = math.cosh(base)
            val[a[1].decl().name()] = math.sinh(base)
        elif key[0] == "sech":
            sym = key[1]
            base = float(values[sym]) / env.decl[sym].denom
            val[a.decl().name()] = 1 / math.cosh(base)
        elif key[0] == "trigpi":
            val[a[0].decl().name()] = math.cos(math.pi / key[1])
            val[a[1].decl().name()] = math.sin(math.pi / key[1])
    # defined atoms (sqrt of terms, abs, reciprocals) are solved from their axioms in order
    return val


def complete_valuation(env, val):
    """fill in definitional atoms (sqrt of terms, abs, reciprocals) in creation order."""
    for kind, names, args in env.defs:
        a = [eval_term(t, val) for t in args]
        if kind == "sqrt":
            val[names[0]] = math.sqrt(max(a[0], 0.0))
        elif kind == "abs":
            val[names[0]] = abs(a[0])
        elif kind == "let":
            val[names[0]] = a[0]
        elif kind == "mod":
            val[names[0]] = a[0] - a[1] * math.floor(a[0] / a[1])
        elif kind == "recip":
            val[names[0]] = 1.0 / a[0] if a[0] != 0 else float("inf")
        elif kind == "gtrig":
            val[names[0]] = math.cos(a[0])
            val[names[1]] = math.sin(a[0])
        elif kind == "eigpm":
            n = int(round(math.sqrt(len(a) // 2)))
            M = numpy.array([complex(a[2 * i], a[2 * i + 1]) for i in range(n * n)]).reshape(n, n)
            ev = sorted([e.real for e in numpy.linalg.eigvals(M) if e.real >= 0], reverse=True)
            for nm, e in zip(names, ev + [0.0] * len(names)):
                val[nm] = e
        elif kind == "ghyp":
            val[names[0]] = math.cosh(a[0])
            val[names[1]] = math.sinh(a[0])
        elif kind == "gexp":
            val[names[0]] = math.exp(a[0])
            val[names[1]] = math.exp(-a[0])
        elif kind == "csqrt":
            y = cmath.sqrt(complex(a[0], a[1]))
            val[names[0]] = y.real
            val[names[1]] = y.imag
        elif kind == "crecip":
            n = a[0] * a[0] + a[1] * a[1]
            val[names[0]] = a[0] / n if n else float("inf")
            val[names[1]] = -a[1] / n if n else float("inf")
    return val
