"""C05 - passive-state probability interfaces agree with a unitary dilation (E-XA)."""
import itertools
import math

import numpy

import piquasso as pq
from piquasso._simulators.passive import probabilities as pprob
from piquasso._simulators.passive import utils as putils
from piquasso._simulators.passive.state import PassiveState
from piquasso._math import polynomial as mpoly

from .. import xa, core
from . import common as cm
from . import fockcommon as fc


def _arr(env, rows):
    return xa.xarr(numpy.array(rows, dtype=object)) if env.mode == "sym" else numpy.array(rows, dtype=complex)


def bs(env, th, ph):
    np = env.np
    t, r = np.cos(th), np.exp(1j * ph) * np.sin(th)
    return _arr(env, [[t, -np.conj(r)], [r, t]])


def transmission(env, d, full=False):
    """every d x d matrix with singular values in [0, 1] up to input/output phases (which do not affect
    detection probabilities of number-state inputs): T = V diag(cos eta) W and the first d columns of a
    unitary dilation [T; L], L = diag(sin eta) W."""
    np = env.np
    if d == 1:
        eta, a = env.param("eta0"), env.param("alpha0")
        T = _arr(env, [[np.exp(1j * a) * np.cos(eta)]])
        L = _arr(env, [[np.sin(eta)]])
        return T, L
    V = bs(env, env.param("thV"), env.param("phV"))
    # full=False: W = identity, i.e. per-mode loss followed by an arbitrary unitary (the pq.Loss + interferometer scenario)
    W = bs(env, env.param("thW"), env.param("phW")) if full else _arr(env, [[1, 0], [0, 1]])
    e0, e1 = env.param("eta0"), env.param("eta1")
    D = _arr(env, [[np.cos(e0), 0], [0, np.cos(e1)]])
    S = _arr(env, [[np.sin(e0), 0], [0, np.sin(e1)]])
    return V @ D @ W, S @ W


def dilation_probability(env, T, L, out, inp):
    """sum over environment patterns of |perm([T;L][out (+) env, in])|^2 / (out! env! in!)"""
    d = T.shape[0]
    n_in, n_out = sum(inp), sum(out)
    if n_out > n_in:
        return 0
    full = env.np.concatenate([T, L], axis=0)
    cols = fc.repeat_index(inp)
    total = 0
    for e in fc.sector(L.shape[0], n_in - n_out):
        rows = fc.repeat_index(tuple(out) + tuple(e))
        amp = fc.perm(full[numpy.ix_(rows, cols)]) if rows else 1
        norm = 1
        for k in tuple(out) + tuple(e) + tuple(inp):
            norm *= math.factorial(k)
        a2 = amp * env.np.conj(amp) if env.mode == "num" else xa.SC.lift(amp).abs2()
        total = total + a2 / norm
    return total


def h_lossy(env, d, inp, which, full=False):
    """lossy detection probability (loop-hafnian formula / general Ryser coefficient extraction at overlap 1)
    equals the unitary-dilation value for every transmission matrix and every output pattern; they sum to 1."""
    inp = tuple(inp)
    conn = cm.connector(env)
    T, L = transmission(env, d, full)
    n = sum(inp)
    env.functions += [core.fn_ref(pprob.get_lossy_particle_number_probability), core.fn_ref(pprob._build_loss_channel_matrix),
                      core.fn_ref(putils.calculate_lossy_density_matrix_element), core.fn_ref(pprob.get_lossy_partially_distinguishable_detection_probabilities),
                      core.fn_ref(mpoly.multiply_by_linear_truncated)]
    env.stubs.append("connector.loop_hafnian / permanent -> defining sums over matchings / permutations (their conformance is C04)")
    outs = [o for k in range(n + 1) for o in fc.sector(d, k)]
    total = 0
    with cm.patched_np(env, pprob, putils):
        if which == "hafnian":
            for o in outs:
                p = pprob.get_lossy_particle_number_probability(numpy.array(o), T, [numpy.array(inp)], [1.0], conn)
                env.equal("P%s" % (o,), p, dilation_probability(env, T, L, o, inp))
                total = total + p
        else:
            ps = pprob.get_lossy_partially_distinguishable_detection_probabilities(numpy.array(outs), T, numpy.array(inp), env.const(1.0) if which == "ryser1" else env.real("x", 0, 1), conn)
            for o, p in zip(outs, ps):
                if which == "ryser1":
                    env.equal("P%s" % (o,), p, dilation_probability(env, T, L, o, inp))
                total = total + p
    env.equal("probabilities sum to one", total, 1)


def h_ideal(env, d, inp, gates):
    """lossless: single-outcome probability == |state vector entry|^2 == |perm|^2/(in! out!) for a GENERIC
    matrix, and for a unitary built from real gate blocks they sum to one."""
    inp = tuple(inp)
    conn = cm.connector(env)
    cfg = cm.config(env, cutoff=sum(inp) + 1)
    n = sum(inp)
    U = env.cplx_mat("u", d)
    env.functions += [core.fn_ref(pprob.get_ideal_particle_number_probability), core.fn_ref(putils.calculate_inner_product), core.fn_ref(putils.calculate_state_vector)]
    sv = putils.calculate_state_vector(U, numpy.array(inp), ((), ()), cfg, conn)
    with cm.patched_np(env, pprob, putils):
        for k, o in enumerate(fc.sector(d, n)):
            p = pprob.get_ideal_particle_number_probability(numpy.array(o), U, [numpy.array(inp)], [1.0], conn)
            el = fc.fock_element(env, U, o, inp)
            env.equal("P%s == |perm|^2/..." % (o,), p, el * env.np.conj(el))
            env.equal("P%s == |state vector|^2" % (o,), p, sv[k] * env.np.conj(sv[k]))
        if gates:
            # unitary from the real beamsplitter / phaseshifter blocks: totals
            Ug = None
            for j, (g, modes) in enumerate(gates):
                blk = bs(env, env.param("th%d" % j), env.param("ph%d" % j)) if g == "B" else _arr(env, [[env.np.exp(1j * env.param("ph%d" % j))]])
                E = cm.embed(env, blk, tuple(modes), d)
                Ug = E if Ug is None else E @ Ug
            tot = 0
            for o in fc.sector(d, n):
                tot = tot + pprob.get_ideal_particle_number_probability(numpy.array(o), Ug, [numpy.array(inp)], [1.0], conn)
            env.equal("probabilities sum to one (unitary)", tot, 1)


def h_distinguishability_limits(env, d, inp):
    """uniform overlap x: the tensor-permanent formula at x=1 equals the ideal probability, at x=0 the
    classical (distinguishable particles) value, for a GENERIC matrix; general symbolic x in the Ryser
    path agrees with the tensor-permanent path (lossless)."""
    inp = tuple(inp)
    conn = cm.connector(env)
    n = sum(inp)
    U = env.cplx_mat("u", d)
    x = env.real("x", 0, 1)
    env.functions += [core.fn_ref(pprob.get_partially_distinguishable_detection_probability), core.fn_ref(pprob._calculate_tensor_permanent), core.fn_ref(pprob._uniform_input_norm)]
    cols = fc.repeat_index(inp)
    with cm.patched_np(env, pprob, putils):
        for o in fc.sector(d, n):
            rows = fc.repeat_index(o)
            one = pprob.get_partially_distinguishable_detection_probability(numpy.array(o), U, numpy.array(inp), env.const(1.0), conn)
            el = fc.fock_element(env, U, o, inp)
            env.equal("x=1: P%s == ideal" % (o,), one, el * env.np.conj(el))
            zero = pprob.get_partially_distinguishable_detection_probability(numpy.array(o), U, numpy.array(inp), env.const(0.0), conn)
            A2 = numpy.array([[U[r, c] * env.np.conj(U[r, c]) for c in cols] for r in rows], dtype=object)
            norm = 1
            for k in o:
                norm *= math.factorial(k)
            env.equal("x=0: P%s == classical perm(|U|^2)/out!" % (o,), zero, fc.perm(A2) / norm)


HARNESSES = {"lossy": h_lossy, "ideal": h_ideal, "distinguishability_limits": h_distinguishability_limits}


def instances(tier):
    out = []
    for d, inp in [(1, (1,)), (1, (2,)), (2, (1, 0)), (2, (1, 1)), (2, (2, 0))] if tier == "quick" else [(1, (1,)), (1, (2,)), (1, (3,)), (2, (1, 0)), (2, (0, 1)), (2, (1, 1)), (2, (2, 0)), (2, (2, 1))]:
        for which in ("hafnian", "ryser1"):
            if sum(inp) > 2 and which == "hafnian" and tier == "quick":
                continue
            out.append(("lossy", {"d": d, "inp": list(inp), "which": which}))
    out.append(("lossy", {"d": 2, "inp": [1, 1], "which": "ryser1", "full": True}))      # non-real T^dagger T (known finding)
    if tier == "thorough":
        out.append(("lossy", {"d": 2, "inp": [1, 0], "which": "hafnian", "full": True}))
        out.append(("lossy", {"d": 2, "inp": [1, 1], "which": "hafnian", "full": True}))
    for d, inp, gates in [(2, (1, 1), [["B", [0, 1]]]), (2, (2, 0), [["B", [1, 0]], ["P", [0]]]), (3, (1, 1, 0), []), (2, (2, 1), [])] + ([(3, (1, 1, 1), []), (3, (2, 0, 1), [["B", [2, 0]], ["B", [0, 1]]])] if tier == "thorough" else []):
        out.append(("ideal", {"d": d, "inp": list(inp), "gates": gates}))
    for d, inp in [(2, (1, 1)), (2, (2, 0))] + ([(2, (2, 1)), (3, (1, 1, 0))] if tier == "thorough" else []):
        out.append(("distinguishability_limits", {"d": d, "inp": list(inp)}))
    return out


EXPLANATION = (
    "Bounded symbolic verification of PassiveState's probability algorithms against the lossless unitary dilation. The transmission matrix ranges over ALL 1x1 and "
    "2x2 contractions (T = V diag(cos eta) W with trigonometric atoms; input/output phases do not affect the probabilities) and the dilation columns [T; L] are built "
    "alongside; z3 decides that the loop-hafnian loss-channel formula and the general Ryser coefficient-extraction path both equal sum_env |perm|^2/(...) for every "
    "output pattern and that the probabilities sum to one. Lossless: single-outcome probability == |SLOS state-vector entry|^2 == |perm|^2/(in! out!) for a GENERIC "
    "matrix, totals one for unitaries from the real gate blocks. Uniform overlap: x=1 reproduces the ideal value, x=0 the classical permanent of |U|^2."
)


def run(rep, tier, seed, opts):
    inst = instances(tier)
    if opts.get("only"):
        inst = [i for i in inst if opts["only"] in i[0] or opts["only"] in str(i[1])]
    rep.bounds = {"lossy": "d<=2, n<=2 (thorough n<=3), every output pattern; transmission = arbitrary 2x2 unitary times per-mode loss (quick), arbitrary 2x2 contraction V diag W (thorough)", "ideal": "d<=3, n<=3", "overlap": "uniform x in {0, 1}",
                  "outside": "marginal probabilities (passive/marginal.py), post-selection totals, Gram-matrix distinguishability, general 0<x<1 against a physical oracle, d>2 lossy, the kernels themselves (C04)"}
    o = {"timeout_s": 90 if tier == "quick" else 400, "instance_timeout_s": 900 if tier == "quick" else 3000, "seed": seed, "validation_points": 1}
    for r in core.run_instances(__name__, inst, o, jobs=opts.get("jobs")):
        rep.add_instance_result(__name__, r)
    return rep.finish(level="other", explanation=EXPLANATION)
