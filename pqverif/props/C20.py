"""C20 - condition and parameter expressions are safe and mean what Python means (E-CH).

The outcome tuple x is symbolic (CrossHair/z3 own the quantifier over x); the source strings are
generated from the documented grammar and enumerated concretely, because ast.parse realises
symbolic strings.  Constants are replaced by entries of x wherever the grammar allows, so that
they are symbolic too."""
import ast
import random
import itertools

from .. import core, ch

from piquasso.core import _expressions
from piquasso.api import instruction as _instruction

ARITH = ["+", "-", "*", "/", "%", "^"]          # '**' is handled with concrete exponents (z3 has no decision procedure for symbolic powers)
CMP = ["==", "!=", "<", "<=", ">", ">="]
BOOL = ["and", "or"]
UNARY = ["-", "+", "not "]

HEADER = '''from typing import Tuple
from piquasso.core._expressions import Expression
from piquasso.api.exceptions import InvalidExpression
import piquasso as pq


def _same(src, x):
    """Expression(src)(x) and Python's eval agree in value AND type, or both raise."""
    e = Expression(src)
    try:
        a = ("val", e(x))
    except Exception as exc:
        a = ("exc", None)
    try:
        b = ("val", eval(src, {"__builtins__": {}}, {"x": x}))
    except Exception as exc:
        b = ("exc", None)
    if a[0] != b[0]:
        return False
    if a[0] == "exc":
        return True
    return type(a[1]) is type(b[1]) and a[1] == b[1]


class _Oracle:
    """truth values of opaque operands/comparisons: one solver-chosen bool per distinct term"""
    def __init__(self, supply):
        self.supply = list(supply)
        self.assign = {}
    def truth(self, term):
        k = repr(term)
        if k not in self.assign:
            if not self.supply:
                raise OverflowError("truth supply exhausted")
            self.assign[k] = self.supply.pop(0)
        return self.assign[k]


def _kind(v):
    # isinstance (not type()) so that CrossHair's symbolic bool/int proxies are classified like the real types
    if isinstance(v, bool):
        return "bool"
    if isinstance(v, int):
        return "int"
    if isinstance(v, float):
        return "float"
    return type(v).__name__


def _t(v):
    return v.t if isinstance(v, _S) else ("const", _kind(v), v)


class _S:
    """opaque number: arithmetic builds a term (uninterpreted functions), comparisons and
    truthiness are bools chosen by the solver per distinct term"""
    def __init__(self, t, o):
        self.t, self.o = t, o
    def _mk(self, op, a, b):
        return _S((op, _t(a), _t(b)), self.o)
    def __add__(self, o): return self._mk("+", self, o)
    def __radd__(self, o): return self._mk("+", o, self)
    def __sub__(self, o): return self._mk("-", self, o)
    def __rsub__(self, o): return self._mk("-", o, self)
    def __mul__(self, o): return self._mk("*", self, o)
    def __rmul__(self, o): return self._mk("*", o, self)
    def __truediv__(self, o): return self._mk("/", self, o)
    def __rtruediv__(self, o): return self._mk("/", o, self)
    def __mod__(self, o): return self._mk("%", self, o)
    def __rmod__(self, o): return self._mk("%", o, self)
    def __pow__(self, o): return self._mk("**", self, o)
    def __rpow__(self, o): return self._mk("**", o, self)
    def __xor__(self, o): return self._mk("^", self, o)
    def __rxor__(self, o): return self._mk("^", o, self)
    def __floordiv__(self, o): return self._mk("//", self, o)
    def __neg__(self): return _S(("neg", self.t), self.o)
    def __pos__(self): return _S(("pos", self.t), self.o)
    def __lt__(self, o): return self.o.truth(("<", self.t, _t(o)))
    def __le__(self, o): return self.o.truth(("<=", self.t, _t(o)))
    def __gt__(self, o): return self.o.truth((">", self.t, _t(o)))
    def __ge__(self, o): return self.o.truth((">=", self.t, _t(o)))
    def __eq__(self, o): return self.o.truth(("==", self.t, _t(o)))
    def __ne__(self, o): return self.o.truth(("!=", self.t, _t(o)))
    def __bool__(self): return self.o.truth(("bool", self.t))
    __hash__ = None


def _norm(v):
    if isinstance(v, _S):
        return ("S", v.t)
    if isinstance(v, (tuple, list)):
        return (type(v).__name__,) + tuple(_norm(e) for e in v)
    return (_kind(v), v)


def _same_uf(src, tv):
    """agreement under the uninterpreted-function abstraction: holds for operands of ANY numeric
    type because arithmetic is never interpreted; tv are the solver-chosen truth values."""
    oa, ob = _Oracle(tv), _Oracle(tv)
    xa = tuple(_S(("x", i), oa) for i in range(4))
    xb = tuple(_S(("x", i), ob) for i in range(4))
    e = Expression(src)
    try:
        a = ("val", _norm(e(xa)))
    except OverflowError:
        return True
    except Exception:
        a = ("exc",)
    try:
        b = ("val", _norm(eval(src, {"__builtins__": {}}, {"x": xb})))
    except OverflowError:
        return True
    except Exception:
        b = ("exc",)
    return repr(a) == repr(b)


class _Rec(tuple):
    """outcome tuple recording which entries are read, in order (observable evaluation order)"""
    def __new__(cls, vals, log):
        self = tuple.__new__(cls, vals)
        self.log = log
        return self
    def __getitem__(self, i):
        self.log.append(i if isinstance(i, int) else repr(i))
        return tuple.__getitem__(self, i)


def _same_trace(src, vals):
    """same result and same sequence of operand reads (short-circuit, left-to-right, evaluate-once)."""
    la, lb = [], []
    a = Expression(src)(_Rec(vals, la))
    b = eval(src, {"__builtins__": {}}, {"x": _Rec(vals, lb)})
    return la == lb and type(a) is type(b) and a == b

'''


def _paren(s):
    return "(" + s + ")"


def gen_sources(tier, seed):
    """expression sources grouped by family; atoms are x[i] (symbolic), plus a few literals."""
    rng = random.Random(seed)
    A = ["x[0]", "x[1]", "x[2]", "x[3]"]
    out = []
    # depth 1: every operator on symbolic atoms
    for o in ARITH:
        out.append(("arith1", "x[0] %s x[1]" % o))
    for o in CMP:
        out.append(("cmp1", "x[0] %s x[1]" % o))
    for o in BOOL:
        out.append(("bool1", "x[0] %s x[1]" % o))
        out.append(("bool1", "x[0] %s x[1] %s x[2]" % (o, o)))
    for u in UNARY:
        out.append(("unary1", "%sx[0]" % u))
    for e in ("0", "1", "2", "3", "-1"):
        out.append(("pow", "x[0] ** %s" % e))
        out.append(("pow", "(x[0] ** %s) %% x[1]" % e if e != "-1" else "x[0] ** -1 + x[1]"))
    out.append(("pow", "2 ** x[0] if False else 0") if False else ("pow", "-x[0] ** 2"))
    out.append(("pow", "2 ** 3 ** 2 + x[0]"))
    # chained comparisons (all pairs)
    for o1 in CMP:
        for o2 in CMP:
            out.append(("chain", "x[0] %s x[1] %s x[2]" % (o1, o2)))
    out.append(("chain", "x[0] < x[1] < x[2] < x[3]"))
    out.append(("chain", "x[0] < x[1] == x[2] >= x[3]"))
    # depth 2: every ordered pair of binary operators, both groupings and the unparenthesised form (precedence)
    ops = ARITH + CMP + BOOL
    pairs = list(itertools.product(ops, ops))
    for o1, o2 in pairs:
        out.append(("depth2", "(x[0] %s x[1]) %s x[2]" % (o2, o1)))
        out.append(("depth2", "x[0] %s (x[1] %s x[2])" % (o1, o2)))
        out.append(("depth2", "x[0] %s x[1] %s x[2]" % (o1, o2)))
    for u in UNARY:
        for o in ops:
            out.append(("unary2", "%s(x[0] %s x[1])" % (u, o)))
            out.append(("unary2", "%sx[0] %s x[1]" % (u, o)))
            out.append(("unary2", "x[0] %s %sx[1]" % (o, u)))
    # indexing / slicing / literals / mixing
    for s_ in ["x[-1]", "x[-4]", "x[1:3]", "x[:2]", "x[::2]", "x[::-1]", "x[1:]", "x[:-1] == x[1:]", "x[0:4:3]", "x[x[0] % 4]",
               "x[x[0]]", "x[1:x[1]]", "x[::x[2]]", "(x[0], x[1]) < (x[2], x[3])", "[x[0], 1] == [x[1], 1]", "x[:2] + x[2:] == x",
               "x[1:3][0]", "(x[0], x[1])[x[2] % 2]", "x == x[:]", "x[True]", "x[False:True]", "x[0] and x[1:3]", "not x[1:1]",
               "x[0] + True", "True + True", "1.5 * x[0]", "x[0] / 2 == x[1]", "x[0] // 2 if 0 else 1" if False else "x[0] % 2 == 0",
               "x[0] > 0 and x[1] > 0 or x[2] > 0", "x[0] > 0 or x[1] > 0 and x[2] > 0", "not x[0] > 0 and x[1]", "not (x[0] > 0 and x[1])",
               "x[0] == 1 != x[1]", "1 < x[0] <= 3", "x[0] in (1, 2)" if False else "x[0] == 1 or x[0] == 2", "-x[0] % 3", "- x[0] ^ x[1]", "x[0] ^ x[1] == x[1] ^ x[0]",
               "x[0] * x[1] + x[2] * x[3]", "x[0] - x[1] - x[2]", "x[0] / x[1] / x[2]", "x[0] % x[1] % x[2]", "(x[0] < x[1]) + (x[1] < x[2])",
               "(x[0] < x[1]) == True", "x[0] < x[1] == True", "x[3] and 3", "x[3] or 3", "0 or x[3]", "x[3] and x[0] or x[1]", "1e0 * x[0]", "x[0] * 0.5 + 1"]:
        out.append(("misc", s_))
    # depth 3 (sampled by seed): random trees
    def rnd(depth):
        if depth == 0 or rng.random() < 0.25:
            return rng.choice(A + ["1", "2", "0", "True"])
        k = rng.random()
        if k < 0.55:
            return _paren(rnd(depth - 1) + " " + rng.choice(ops) + " " + rnd(depth - 1))
        if k < 0.7:
            return _paren(rng.choice(UNARY) + rnd(depth - 1))
        if k < 0.85:
            return _paren(rnd(depth - 1) + " " + rng.choice(CMP) + " " + rnd(depth - 1) + " " + rng.choice(CMP) + " " + rnd(depth - 1))
        return _paren(rnd(depth - 1) + " " + rng.choice(BOOL) + " " + rnd(depth - 1) + " " + rng.choice(BOOL) + " " + rnd(depth - 1))
    n3 = 300 if tier == "quick" else 3000
    seen = set()
    while len(seen) < n3:
        e = rnd(3)
        if e not in seen and "x[" in e:
            seen.add(e)
            out.append(("depth3", e))
    # de-duplicate, keep order; drop strings that are not Python expressions at all
    res, s2 = [], set()
    for fam, e in out:
        try:
            compile(e, "<gen>", "eval")
        except SyntaxError:
            continue
        if e not in s2:
            s2.add(e)
            res.append((fam, e))
    return res


TRACE_SOURCES = [
    "x[0] and x[1]", "x[0] or x[1]", "x[0] and x[1] and x[2]", "x[0] or x[1] or x[2]", "x[0] and x[1] or x[2]", "x[0] or x[1] and x[2]",
    "x[0] < x[1] < x[2]", "x[0] == x[1] != x[2]", "x[0] < x[1] and x[1] < x[2]", "not x[0] or x[1] < x[2]", "x[0] < x[1] < x[2] < x[3]",
    "(x[0] or x[1]) and (x[2] or x[3])", "x[0] <= x[1] >= x[2]",
]

# AST node classes of the running interpreter that may appear in an `eval`-mode tree, with a smallest
# expression containing each.  The documented grammar (Instruction.when / class docstring): numbers,
# booleans, x, indexing and slicing, arithmetic, comparison and boolean operators, parentheses
# (tuples and lists of such expressions are accepted as operands).
REJECT = {
    "Call": "x.__len__()", "Call2": "len(x)", "Attribute": "x.count", "Lambda": "lambda: 1", "IfExp": "1 if x else 2",
    "Dict": "{1: 2}", "Set": "{1, 2}", "ListComp": "[i for i in x]", "SetComp": "{i for i in x}", "DictComp": "{i: i for i in x}",
    "GeneratorExp": "(i for i in x)", "JoinedStr": "f'{x}'", "Str": "'a'", "Bytes": "b'a'", "NoneConst": "None", "Ellipsis": "...",
    "Complex": "1j", "NamedExpr": "(y := 1)", "Starred": "(*x,)", "OtherName": "y", "Builtin": "__import__", "Dunder": "__builtins__",
    "FloorDiv": "x[0] // 2", "LShift": "x[0] << 1", "RShift": "x[0] >> 1", "BitAnd": "x[0] & 1", "BitOr": "x[0] | 1", "MatMult": "x @ x",
    "Invert": "~x[0]", "In": "1 in x", "NotIn": "1 not in x", "Is": "x is x", "IsNot": "x is not x", "Await": "await x", "Yield": "(yield)",
    "NestedCall": "x[0] + (lambda: 1)()", "AttrInSlice": "x[x.__class__.__bases__[0].__subclasses__()[0]]", "ImportCall": "__import__('os').system('true')",
    "StrMul": "'a' * 10", "Assign": "x = 1", "Stmt": "import os", "Semicolon": "1; 2", "Backtick": "`x`",
    "FString2": "f''", "CallInBoolOp": "True or exit()", "CallInCompare": "1 < len(x) < 3", "CallInSubscript": "x[len(x) - 1]",
    "CallInSlice": "x[:len(x)]", "CallInTuple": "(1, exit())", "CallInList": "[exit()]", "CallInUnary": "-abs(1)", "KwCall": "print(end='')",
}


def _needs_int(src):
    """sources whose subscripts use outcome values as indices need real ints"""
    import re
    return bool(re.search(r"x\[[^\]]*x\[", src)) or "True]" in src or "[True" in src or "[False" in src


def _plus_on_bool(src):
    import re
    return bool(re.search(r"\+\s*\(\s*x\[\d\]\s*(<|>|==|!=|<=|>=)", src)) or bool(re.search(r"\+\s*\(?\s*not\b", src))


INT_FAMILIES = ("arith1", "cmp1", "bool1", "unary1", "pow", "chain", "misc")
HARD = ("/", "%", "^", "*")


def build_source(tier, seed):
    srcs = gen_sources(tier, seed)
    parts = [HEADER]
    conds = []
    for i, (fam, src) in enumerate(srcs):
        if fam in INT_FAMILIES and not _plus_on_bool(src):
            nhard = sum(src.count(h) for h in HARD) - 2 * src.count("**")
            if nhard >= 1 and tier == "quick":
                continue
            fn = "eq_%03d" % i
            bound = 3 if ("**" in src or nhard >= 1) else 8
            parts.append('def %s(x: Tuple[int, int, int, int]) -> bool:\n    """\n    pre: all(-%d <= v <= %d for v in x)\n    post: _\n    """\n    return _same(%r, x)\n\n'
                         % (fn, bound, bound, src))
            conds.append({"fn": fn, "desc": "%s: Expression(%r)(x) == eval (value and type) for all int x in [-%d,%d]^4" % (fam, src, bound, bound)})
            if fam in ("bool1", "misc", "chain") and i % 3 == 0 and nhard == 0:
                fn2 = "eqb_%03d" % i
                parts.append('def %s(x: Tuple[int, bool, int, bool]) -> bool:\n    """\n    pre: -4 <= x[0] <= 4 and -4 <= x[2] <= 4\n    post: _\n    """\n    return _same(%r, x)\n\n'
                             % (fn2, src))
                conds.append({"fn": fn2, "desc": "%s (int/bool mix): Expression(%r)(x) == eval" % (fam, src)})
    for i, src in enumerate(TRACE_SOURCES):
        fn = "trace_%02d" % i
        parts.append('def %s(x: Tuple[int, int, int, int]) -> bool:\n    """\n    pre: all(-3 <= v <= 3 for v in x)\n    post: _\n    """\n    return _same_trace(%r, x)\n\n' % (fn, src))
        conds.append({"fn": fn, "desc": "short-circuit / evaluate-once trace of %r equals Python's" % src})
    # reachability twins (one per template)
    parts.append('def twin_eq(x: Tuple[int, int, int, int]) -> bool:\n    """\n    pre: all(-8 <= v <= 8 for v in x)\n    post: False\n    """\n    return _same("x[0] < x[1] < x[2]", x)\n\n')
    conds.append({"fn": "twin_eq", "twin": True})
    parts.append('def twin_trace(x: Tuple[int, int, int, int]) -> bool:\n    """\n    pre: all(-3 <= v <= 3 for v in x)\n    post: False\n    """\n    return _same_trace("x[0] and x[1]", x)\n\n')
    conds.append({"fn": "twin_trace", "twin": True})
    # rejection: the solver picks which hostile construct and where it is embedded
    names = sorted(REJECT)
    parts.append("HOSTILE = %r\nWRAP = ['%%s', '(%%s)', 'x[0] + (%%s)', '(%%s) and x', 'x or (%%s)', 'not (%%s)', 'x[0] < (%%s)', '[%%s]', '(1, %%s)', '-(%%s)', '1 < (%%s) < 3', 'x[%%s]', 'x[%%s:]', 'x[:%%s]', 'x[::%%s]', 'x[1:2:%%s]', '(x[0], x[::%%s])', 'x[x[%%s]]', 'x[1:][::%%s]', 'x[0] ** (%%s)', '(%%s) or 1', '[1, [2, %%s]]', 'x[-(%%s)]']\n\n"
                 % [REJECT[k] for k in names])
    parts.append('''
class _Boom(tuple):
    """an outcome tuple that records any access: construction must not evaluate anything"""
    touched = []
    def __getitem__(self, i):
        _Boom.touched.append(i)
        return tuple.__getitem__(self, i)


def _rejects(k, w):
    src = WRAP[w] % HOSTILE[k]
    _Boom.touched.clear()
    try:
        Expression(src)
    except InvalidExpression:
        ok = True
    except BaseException:
        ok = False
    else:
        ok = False
    try:
        pq.Phaseshifter(0.1).when(src)
        ok = False
    except InvalidExpression:
        pass
    try:
        pq.Phaseshifter(src)
        ok = False
    except InvalidExpression:
        pass
    return ok and not _Boom.touched


def twin_rejects(k: int, w: int) -> bool:
    """
    pre: 0 <= k < len(HOSTILE) and 0 <= w < len(WRAP)
    post: False
    """
    return _rejects(k, w)


def when_and_params_use_expression(a: int, b: int, c: int) -> bool:
    """
    pre: -3 <= a <= 3 and -3 <= b <= 3 and -3 <= c <= 3
    post: _
    """
    x = (a, b, c)
    inst = pq.Phaseshifter("x[0] * x[1] - x[2]").when("x[0] < x[1] <= x[2]")
    cond = inst._is_condition_met(x)
    inst._resolve_params(x)
    val = inst.params["phi"]
    inst._unresolve_params()
    return cond == (a < b <= c) and val == a * b - c and type(val) is int and inst.params["phi"] == "x[0] * x[1] - x[2]"

''')
    nwrap = 23
    for w in range(nwrap):
        parts.append('def rejects_w%02d(k: int) -> bool:\n    """\n    pre: 0 <= k < len(HOSTILE)\n    post: _\n    """\n    return _rejects(k, %d)\n\n' % (w, w))
        conds.append({"fn": "rejects_w%02d" % w, "timeout_s": 60,
                      "desc": "every construct outside the documented grammar (solver-chosen from the table), embedded in template #%d, raises InvalidExpression at construction (Expression, .when, string parameter) without touching x" % w})
    parts.append('assert len(WRAP) == %d\n\n' % nwrap)
    conds.append({"fn": "twin_rejects", "twin": True, "timeout_s": 60})
    conds.append({"fn": "when_and_params_use_expression", "timeout_s": 90, "desc": "Instruction.when / string parameters evaluate through Expression: condition and resolved parameter equal Python's value for all outcomes"})
    return "".join(parts), conds, srcs


EXPLANATION = (
    "CrossHair (symbolic execution of the real Python code with z3) proves, per generated source string, that Expression(src)(x) and Python's eval(src) "
    "agree in value and type (or both raise) for ALL integer outcome tuples x of length 4 within the stated range ('Confirmed over all paths'). "
    "The strings come from the documented grammar: every operator at depth 1, all 36 chained-comparison pairs, ordered operator pairs at depth 2 in both "
    "groupings and unparenthesised (precedence), indexing/slicing forms, and seed-sampled depth-3 trees; short-circuit and evaluate-once behaviour is "
    "compared through recording operands.  Rejection: a solver-chosen (construct, embedding) pair from the table of AST constructs outside the grammar "
    "must raise InvalidExpression at construction without evaluating anything."
)


def _replay_search(src):
    """find concrete ints on which the real Expression and Python's eval disagree"""
    import itertools
    e = _expressions.Expression(src)
    for x in itertools.product(range(-3, 4), repeat=4):
        try:
            a = ("v", e(x))
        except Exception:
            a = ("e",)
        try:
            b = ("v", eval(src, {"__builtins__": {}}, {"x": x}))
        except Exception:
            b = ("e",)
        if a[0] != b[0] or (a[0] == "v" and (type(a[1]) is not type(b[1]) or a[1] != b[1])):
            return x, a, b
    return None


def run_uf(rep, srcs, tier):
    """UF family: my own explorer; z3 decides path feasibility and equality of the two results."""
    import time
    from .. import uf
    t0 = time.time()
    for fam, src in srcs:
        if _needs_int(src):
            continue
        try:
            e = _expressions.Expression(src)
        except Exception as exc:
            rep.harness_errors.append("generated source %r rejected by Expression: %s" % (src, exc))
            continue
        name = "uf:%s" % src
        r = uf.explore(lambda x: e(x), lambda x: eval(src, {"__builtins__": {}}, {"x": x}), n=4, path_budget=20000 if tier == "thorough" else 4096)
        rep.obligations += 1
        rep.paths += r["paths"]
        rep.extra["uf_solver_queries"] = rep.extra.get("uf_solver_queries", 0) + r["queries"]
        rep.by_result["uf-" + r["result"]] = rep.by_result.get("uf-" + r["result"], 0) + 1
        if r["result"] == "unsat":
            rep.discharged += 1
            rep.nontrivial_names.add(name)
            if len(rep.samples) < 8 and r["paths"] > 2:
                rep.samples.append({"source": src, "family": fam, "paths": r["paths"], "solver_queries": r["queries"], "result": "Expression == eval on every truth path (UF abstraction)"})
        elif r["result"] == "sat":
            cex = _replay_search(src)
            if cex is not None:
                rep.violation("uf", {"src": src}, name, {"x": list(cex[0])}, "Expression(%r)(%r) = %r but Python gives %r (path %s)" % (src, cex[0], cex[1], cex[2], r.get("cex")),
                              kind="c20", extra={"src": src, "x": list(cex[0])})
            else:
                rep.inconclusive.append("%s: candidate under the UF over-approximation did not reproduce on any int tuple in [-3,3]^4 (%s)" % (name, r.get("detail", "")[:200]))
        else:
            rep.inconclusive.append("%s: %s" % (name, r.get("why")))
    rep.solver_s += time.time() - t0


def replay(rec):
    src, x = rec["src"], tuple(rec["x"])
    e = _expressions.Expression(src)
    try:
        a = ("v", e(x))
    except Exception as exc:
        a = ("e", type(exc).__name__)
    try:
        b = ("v", eval(src, {"__builtins__": {}}, {"x": x}))
    except Exception as exc:
        b = ("e", type(exc).__name__)
    print("Expression(%r)(%r) -> %r ; Python -> %r" % (src, x, a, b))
    return a[0] == b[0] and (a[0] == "e" or (type(a[1]) is type(b[1]) and a[1] == b[1]))


def run(rep, tier, seed, opts):
    source, conds, srcs = build_source(tier, seed)
    if opts.get("only"):
        conds = [c for c in conds if opts["only"] in c["fn"] or opts["only"] in c.get("desc", "")]
    for f in (_expressions.Expression.__init__, _expressions.Expression._validate, _expressions.Expression._eval, _expressions.Expression.__call__,
              _instruction.Instruction.when, _instruction.Instruction._get_unresolved_params, _instruction.Instruction._resolve_params,
              _instruction.Instruction._is_condition_met):
        rep.note_function(f)
    rep.bounds = {"x": "all int tuples of length 4 with |v|<=8 (|v|<=3 where '**' or depth 3 is involved); int/bool mixes for boolean families",
                  "sources": len(srcs), "depth": "exhaustive operators at depth 1, %s operator pairs at depth 2, %d sampled trees at depth 3" % ("60 sampled" if tier == "quick" else "all 196", 40 if tier == "quick" else 300),
                  "outside": "symbolic exponents of '**' (concrete exponents -1..3 only), float entries of x, strings beyond depth 3, resource exhaustion"}
    rep.stubs.append("eval(src, {'__builtins__': {}}, {'x': x}) is the oracle (Python's own semantics)")
    if not opts.get("only") or opts["only"] == "uf":
        run_uf(rep, srcs, tier)
    if opts.get("only") != "uf":
        ch.run_conditions(rep, source, conds, timeout_s=15 if tier == "quick" else 60, per_path=5, jobs=opts.get("jobs"))
    return rep.finish(level="other", explanation=EXPLANATION, extra_cov={"engine": "crosshair-tool 0.0.110 + z3"})
