"""C06 - Fock-basis enumeration and index functions are mutually inverse (E-CH + E-SI)."""
import math

import numpy
import z3

from .. import xa, core, ch, si

from piquasso._math import combinatorics, indices, fock
from piquasso.fermionic import _utils as futils


# ----------------------------------------------------------------------------- E-SI: arr_comb, one loop iteration
def h_arr_comb_step(env, N, i):
    """One iteration of arr_comb's loop from an arbitrary state satisfying the invariant
    prod == C(n, i'), for all 0 <= k <= n <= N with C(n, k) below the 32-bit index range:
    no int64 overflow, and the invariant is preserved (so the result is C(n, k))."""
    if env.mode == "num":
        n, k = env.ivar("n", 0, N), env.ivar("k", 0, N)
        env.num_assumptions.append(("0<=k<=n", 0 <= k <= n))
        env.num_assumptions.append(("C(n,k)<2^31", math.comb(n, k) < 2 ** 31))
        got = int(combinatorics.arr_comb(numpy.array([n], dtype=numpy.int32), int(k))[0])
        env.records.append(("arr_comb(n,k)==C(n,k)", "eq", got, math.comb(n, k), []))
        return
    binom, ax = si.binom_table(N)
    env.axioms += ax
    n_, k_ = env.ivar("n", 0, N), env.ivar("k", 0, N)
    i_ = z3.IntVal(i)      # the loop index is unrolled (concrete); n and k stay symbolic
    env.assume("i<k", i_ < k_)
    env.assume("k<=n", k_ <= n_)
    env.assume("C(n,k)<2^31 (every binomial the index functions need is below the index range)", binom(n_, k_) < 2 ** 31)
    pre, loop, post, glb, args = si.split_loop(combinatorics.arr_comb)
    env.functions.append(core.fn_ref(combinatorics.arr_comb))
    env.stubs.append("module-global np of combinatorics.arr_comb -> scalar machine-integer facade (np.where = ite); binom(n,k) is a lookup-table function for n <= %d" % N)
    g2 = dict(glb)
    g2["np"] = si.SINP()
    ns = {"n": si.SI(n_, 32), "k": si.SI(k_, 64)}
    si.exec_stmts(pre, ns, g2)
    names_before = set(ns)
    # arbitrary iteration: the loop variable is symbolic, the accumulator satisfies the invariant
    ns[loop.target.id] = si.SI(i_, 64)
    # invariant: prod == C(n, min(i, m)) where m is the (possibly symmetric-reduced) number of effective factors
    m = ns.get("k_eff", ns.get("effective_k", None))
    eff = i_ if m is None else z3.If(i_ <= si.SI.lift(m).e, i_, si.SI.lift(m).e)
    ns["prod"] = si.SI(binom(n_, eff), 64)
    start = len(env.records)
    si.exec_stmts(loop.body, ns, g2)
    eff2 = (i_ + 1) if m is None else z3.If(i_ + 1 <= si.SI.lift(m).e, i_ + 1, si.SI.lift(m).e)
    env.holds("invariant preserved: prod == C(n, #factors)", si.SI.lift(ns["prod"]).e == binom(n_, eff2))
    # exit: after k iterations the invariant gives the result
    effk = k_ if m is None else z3.If(k_ <= si.SI.lift(m).e, k_, si.SI.lift(m).e)
    env.holds("exit: C(n, #factors at i=k) == C(n, k)", binom(n_, effk) == binom(n_, k_))


h_arr_comb_step.replay_any = True


def _sample_arr_comb(rng, N, i=0):
    n = rng.randint(0, N)
    k = rng.randint(0, n)
    while math.comb(n, k) >= 2 ** 31:
        k = rng.randint(0, n)
    return {"n": n, "k": k}


h_arr_comb_step.sampler = _sample_arr_comb

HARNESSES = {"arr_comb_step": h_arr_comb_step}


# ----------------------------------------------------------------------------- E-CH harness file
HEADER = '''from typing import Tuple
import types
import numpy as np
from piquasso._math import combinatorics, indices, fock
from piquasso.fermionic import _utils as futils

# tables are produced by the real (compiled) enumerators before anything is substituted
_BT = {dc: tuple(tuple(int(x) for x in r) for r in fock.nb_get_fock_space_basis(*dc)) for dc in __BOS__}
_FT = {d: tuple(tuple(int(x) for x in r) for r in futils.get_fock_space_basis(d, d + 1)) for d in __FER__}

# module-global substitution: the numba dispatchers are replaced by their Python sources so that
# the real function bodies run under symbolic execution (this process only)
for _m in (combinatorics, indices, fock, futils):
    for _n, _o in list(vars(_m).items()):
        if hasattr(_o, "py_func"):
            setattr(_m, _n, _o.py_func)
futils.nb = types.SimpleNamespace(int64=np.int64, int32=np.int32)


class _L(list):
    dtype = np.int64


class _ListNP:
    """numpy shim for the fermionic helpers: 1-d integer arrays become Python lists, so that no
    symbolic value crosses numpy's C boundary"""
    int64 = np.int64
    def zeros(self, n=None, dtype=None, shape=None):
        return _L([0] * int(n if n is not None else shape))
    def empty(self, n, dtype=None):
        return _L([0] * int(n))


futils.np = _ListNP()
_REAL_FTABLE = None


def _table(d, c):
    return _BT[(d, c)]


def _ftable(d):
    return _FT[d]


def _documented_order(T):
    """by particle number, anti-lexicographic within a sector, every vector exactly once"""
    keys = [(sum(v), tuple(-x for x in v)) for v in T]
    return keys == sorted(keys) and len(set(T)) == len(T)

'''


def build_source(tier):
    bos = [(1, 4), (2, 3), (2, 5), (3, 3), (3, 4)] if tier == "quick" else [(1, 6), (2, 4), (2, 7), (3, 4), (3, 6), (4, 4), (4, 5), (5, 4), (6, 3)]
    fer = [2, 3, 4] if tier == "quick" else [2, 3, 4, 5, 6, 7]
    parts = [HEADER.replace("__BOS__", repr(bos)).replace("__FER__", repr(fer))]
    conds = []
    for d, c in bos:
        tag = "%d_%d" % (d, c)
        ty = "Tuple[%s]" % ", ".join(["int"] * d)
        parts.append("T_%s = _table(%d, %d)\nassert len(T_%s) == fock.cutoff_fock_space_dim(%d, %d) and _documented_order(T_%s) and all(sum(v) < %d for v in T_%s)\n"
                     "assert len(T_%s) == sum(fock.symmetric_subspace_cardinality(%d, n) for n in range(%d))\n\n"
                     % (tag, d, c, tag, c, d, tag, c, tag, tag, d, c))
        parts.append('def index_inverse_%s(v: %s) -> bool:\n    """\n    pre: all(x >= 0 for x in v) and sum(v) < %d\n    post: _\n    """\n'
                     '    i = indices.get_index_in_fock_space(v)\n    return 0 <= i < len(T_%s) and T_%s[i] == v\n\n' % (tag, ty, c, tag, tag))
        conds.append({"fn": "index_inverse_%s" % tag, "desc": "d=%d cutoff=%d: basis[get_index_in_fock_space(v)] == v for every occupation vector with sum < cutoff (bijection + documented order of the real enumeration)" % (d, c)})
        parts.append('def subspace_index_%s(v: %s) -> bool:\n    """\n    pre: all(x >= 0 for x in v) and sum(v) < %d\n    post: _\n    """\n'
                     '    n = sum(v)\n    return indices.get_index_in_fock_subspace(v) + fock.cutoff_fock_space_dim(n, %d) == indices.get_index_in_fock_space(v) '
                     'and 0 <= indices.get_index_in_fock_subspace(v) < fock.symmetric_subspace_cardinality(%d, n)\n\n' % (tag, ty, c, d, d))
        conds.append({"fn": "subspace_index_%s" % tag, "desc": "d=%d cutoff=%d: sub-space index + dimension of the lower sectors == full index, and it is within the sector" % (d, c)})
        parts.append('def index_monotone_%s(v: %s, w: %s) -> bool:\n    """\n    pre: all(x >= 0 for x in v) and sum(v) < %d and all(x >= 0 for x in w) and sum(w) < %d\n    post: _\n    """\n'
                     '    kv = (sum(v), tuple(-x for x in v))\n    kw = (sum(w), tuple(-x for x in w))\n'
                     '    return (kv < kw) == (indices.get_index_in_fock_space(v) < indices.get_index_in_fock_space(w))\n\n' % (tag, ty, ty, c, c))
        conds.append({"fn": "index_monotone_%s" % tag, "desc": "d=%d cutoff=%d: the index is strictly monotone w.r.t. the documented order (pairs of symbolic vectors)" % (d, c), "timeout_s": 60})
    parts.append('def twin_index(v: Tuple[int, int]) -> bool:\n    """\n    pre: all(x >= 0 for x in v) and sum(v) < 3\n    post: False\n    """\n    return indices.get_index_in_fock_space(v) >= 0\n\n')
    conds.append({"fn": "twin_index", "twin": True})
    # vectorised index on the same tables (concrete facts, evaluated when the harness is imported)
    parts.append("for _T in (%s):\n    _a = np.array(_T, dtype=np.int32)\n    assert list(indices.get_index_in_fock_space_array(_a)) == list(range(len(_T)))\n"
                 "    assert [int(x) for x in indices.get_index_in_fock_subspace_array(_a)] == [indices.get_index_in_fock_subspace(v) for v in _T]\n\n"
                 % ", ".join("T_%d_%d" % dc for dc in bos))
    for d in fer:
        ty = "Tuple[%s]" % ", ".join(["int"] * d)
        parts.append("F_%d = _ftable(%d)\nassert len(F_%d) == 2 ** %d == futils.get_cutoff_fock_space_dimension(%d, %d) and len(set(F_%d)) == len(F_%d)\n"
                     "assert [sum(v) for v in F_%d] == sorted(sum(v) for v in F_%d)\n\n" % (d, d, d, d, d, d + 1, d, d, d, d))
        parts.append('def fermionic_index_inverse_%d(v: %s) -> bool:\n    """\n    pre: all(0 <= x <= 1 for x in v)\n    post: _\n    """\n'
                     '    i = futils.get_fock_space_index(v)\n    return 0 <= i < len(F_%d) and F_%d[i] == v\n\n' % (d, ty, d, d))
        conds.append({"fn": "fermionic_index_inverse_%d" % d, "desc": "fermionic d=%d: basis[get_fock_space_index(v)] == v for every 0/1 occupation vector" % d, "timeout_s": 60})
        parts.append('def fermionic_successor_%d(v: %s) -> bool:\n    """\n    pre: all(0 <= x <= 1 for x in v) and sum(v) < %d\n    post: _\n    """\n'
                     '    fq = _L(int(x) for x in futils._to_first_quantized(v))\n    nxt = futils.next_first_quantized(fq, %d)\n'
                     '    w = tuple(int(x) for x in futils._to_second_quantized(nxt, %d))\n'
                     '    return futils.get_fock_space_index(w) == futils.get_fock_space_index(v) + 1\n\n' % (d, ty, d, d, d))
        conds.append({"fn": "fermionic_successor_%d" % d, "desc": "fermionic d=%d: one next_first_quantized step from any state raises the rank by exactly one" % d, "timeout_s": 60})
    return "".join(parts), conds, bos, fer


EXPLANATION = (
    "Bounded symbolic verification. CrossHair executes the real Python sources of the ranking functions (numba .py_func, module-global substitution) on a "
    "symbolic occupation vector and confirms, for each listed (d, cutoff), that the table produced by the real enumerator satisfies table[index(v)] == v "
    "for every admissible v (which makes enumeration and index mutually inverse and fixes the order), strict monotonicity w.r.t. the documented order, "
    "sub-space index + sector offset == index, and for fermions the same plus 'successor raises the rank by one'. The vectorised index is tied to the "
    "tables concretely, and its integer kernel arr_comb is verified by one inductive loop step over machine integers: z3 decides, with a binomial lookup "
    "table for n <= N, that no int64 product overflows whenever C(n,k) is below the 32-bit index range and that the loop invariant prod == C(n, i) is preserved."
)


def run(rep, tier, seed, opts):
    only = opts.get("only")
    N = 72 if tier == "quick" else 160
    if not only or "arr_comb" in only:
        o = {"timeout_s": 120 if tier == "quick" else 600, "instance_timeout_s": 900, "seed": seed, "validation_points": 0}
        for r in core.run_instances(__name__, [("arr_comb_step", {"N": N, "i": i}) for i in range(N)], o, jobs=opts.get("jobs")):
            rep.add_instance_result(__name__, r)
    source, conds, bos, fer = build_source(tier)
    if only:
        conds = [c for c in conds if only in c["fn"]]
    for f in (indices.get_index_in_fock_space, indices.get_index_in_fock_subspace, indices.get_index_in_fock_space_array, indices.get_index_in_fock_subspace_array,
              combinatorics.comb, combinatorics.partitions, fock.nb_get_fock_space_basis, fock.cutoff_fock_space_dim, fock.symmetric_subspace_cardinality,
              futils.get_fock_space_index, futils._get_fock_space_index_first_quantized, futils.get_fock_subspace_index_first_quantized,
              futils._to_first_quantized, futils.next_first_quantized, futils._to_second_quantized, futils.get_fock_space_basis, futils.get_cutoff_fock_space_dimension):
        rep.note_function(f)
    rep.bounds = {"bosonic (d, cutoff)": bos, "fermionic d": fer, "arr_comb": "all 0<=k<=n<=%d with C(n,k)<2^31 (n, k symbolic), every loop iteration i < %d (unrolled)" % (N, N),
                  "outside": "larger (d, cutoff) for the symbolic-vector checks; n > %d for arr_comb; the int32 accumulators of the *_array functions are covered only through the tables" % N}
    if conds:
        ch.run_conditions(rep, source, conds, timeout_s=30 if tier == "quick" else 120, per_path=10, jobs=opts.get("jobs"))
    return rep.finish(level="other", explanation=EXPLANATION)
