"""C06 - Fock-basis enumeration and index functions are mutually inverse (E-CH + E-SI)."""
import math

import numpy
import z3

from .. import xa, core, ch, si

from piquasso._math import combinatorics, indices, fock
from piquasso.fermionic import _utils as futils


# ----------------------------------------------------------------------------- E-SI: arr_comb, one loop iteration
def h_arr_comb_step(env, N, i):
    """One iteration of arr_comb's loop from an arbitrary state satisfying the invariant
    prod == C(n, i'), for all 0 <= k <= n <= N with C(n, k) below the 32-bit index range:
    no int64 overflow, and the invariant is preserved (so the result is C(n, k))."""
    if env.mode == "num":
        n, k = env.ivar("n", 0, N), env.ivar("k", 0, N)
        env.num_assumptions.append(("0<=k<=n", 0 <= k <= n))
        env.num_assumptions.append(("C(n,k)<2^31", math.comb(n, k) < 2 ** 31))
        got = int(combinatorics.arr_comb(numpy.array([n], dtype=numpy.int32), int(k))[0])
        env.records.append(("arr_comb(n,k)==C(n,k)", "eq", got, math.comb(n, k), []))
        return
    binom, ax = si.binom_table(N)
    env.axioms += ax
    n_, k_ = env.ivar("n", 0, N), env.ivar("k", 0, N)
    i_ = z3.IntVal(i)      # the loop index is unrolled (concrete); n and k stay symbolic
    env.assume("i<k", i_ < k_)
    env.assume("k<=n", k_ <= n_)
    env.assume("C(n,k)<2^31 (every binomial the index functions need is below the index range)", binom(n_, k_) < 2 ** 31)
    pre, loop, post, glb, args = si.split_loop(combinatorics.arr_comb)
    env.functions.append(core.fn_ref(combinatorics.arr_comb))
    env.stubs.append("module-global np of combinatorics.arr_comb -> scalar machine-integer facade (np.where = ite); binom(n,k) is a lookup-table function for n <= %d" % N)
    g2 = dict(glb)
    g2["np"] = si.SINP()
    ns = {"n": si.SI(n_, 32), "k": si.SI(k_, 64)}
    si.exec_stmts(pre, ns, g2)
    names_before = set(ns)
    # arbitrary iteration: the loop variable is symbolic, the accumulator satisfies the invariant
    ns[loop.target.id] = si.SI(i_, 64)
    # invariant: prod == C(n, min(i, m)) where m is the (possibly symmetric-reduced) number of effective factors
    m = ns.get("k_eff", ns.get("effective_k", None))
    eff = i_ if m is None else z3.If(i_ <= si.SI.lift(m).e, i_, si.SI.lift(m).e)
    ns["prod"] = si.SI(binom(n_, eff), 64)
    start = len(env.records)
    si.exec_stmts(loop.body, ns, g2)
    eff2 = (i_ + 1) if m is None else z3.If(i_ + 1 <= si.SI.lift(m).e, i_ + 1, si.SI.lift(m).e)
    env.holds("invariant preserved: prod == C(n, #factors)", si.SI.lift(ns["prod"]).e == binom(n_, eff2))
    # exit: after k iterations the invariant gives the result
    effk = k_ if m is None else z3.If(k_ <= si.SI.lift(m).e, k_, si.SI.lift(m).e)
    env.holds("exit: C(n, #factors at i=k) == C(n, k)", binom(n_, effk) == binom(n_, k_))


h_arr_comb_step.replay_any = True


def _sample_arr_comb(rng, N, i=0):
    n = rng.randint(0, N)
    k = rng.randint(0, n)
    while math.comb(n, k) >= 2 ** 31:
        k = rng.randint(0, n)
    return {"n": n, "k": k}


h_arr_comb_step.sampler = _sample_arr_comb

def _binom_env(env, N):
    binom, ax = si.binom_table(N)
    env.axioms += ax
    return binom


def h_comb_whole(env, N, side, c):
    """The scalar comb under numba's int64 semantics, whole function, loop unrolled by a concrete
    number of factors: side 'k' = concrete k with symbolic n >= 2k, side 'm' = concrete n-k with
    symbolic k > n-k.  For all n <= N with C(n,k) < 2^31: no int64 overflow and the result is C(n,k)."""
    if env.mode == "num":
        n, k = env.ivar("n", 0, N), env.ivar("k", 0, N)
        env.num_assumptions.append(("0<=k<=n", 0 <= k <= n))
        env.num_assumptions.append(("C(n,k)<2^31", math.comb(n, k) < 2 ** 31))
        env.records.append(("comb(n,k)==C(n,k)", "eq", int(combinatorics.comb(n, k)), math.comb(n, k), []))
        return
    binom = _binom_env(env, N)
    n_, k_ = env.ivar("n", 0, N), env.ivar("k", 0, N)
    if side == "k":
        env.assume("k==c", k_ == c)
        env.assume("n>=2k", n_ >= 2 * c)
        n, k = si.SI(n_, 64), c
    else:
        env.assume("n==k+c", n_ == k_ + c)
        env.assume("k>n-k", k_ > c)
        n, k = si.SI(k_ + c, 64), si.SI(k_, 64)
    env.assume("C(n,k)<2^31", binom(n_, k_) < 2 ** 31)
    # redundant bound implied by the premise (C(n, c) is increasing in n): helps the solver split on n
    nmax = max([n0 for n0 in range(2 * c, N + 1) if math.comb(n0, c) < 2 ** 31] or [2 * c])
    env.assume("n<=nmax(c) (implied by C(n,k)<2^31)", n_ <= nmax)
    fn = combinatorics.comb.py_func
    env.functions.append(core.fn_ref(combinatorics.comb))
    env.stubs.append("numba int64 semantics of comb modelled by machine integers: every arithmetic result carries a no-overflow obligation; binom = lookup table for n <= %d" % N)
    r = fn(n, k)
    env.holds("result == C(n,k)", si.SI.lift(r).e == binom(n_, k_))


h_comb_whole.replay_any = True


def _sample_comb(rng, N, side="k", c=0):
    if side == "k":
        k = c
        n = rng.randint(2 * c, max(2 * c, N))
    else:
        k = rng.randint(c + 1, max(c + 1, N - c))
        n = k + c
    tries = 0
    while math.comb(n, k) >= 2 ** 31 and tries < 200:
        tries += 1
        if side == "k":
            n = rng.randint(2 * c, N)
        else:
            k = rng.randint(c + 1, N - c)
            n = k + c
    return {"n": n, "k": k}


h_comb_whole.sampler = _sample_comb


class _Vec:
    """an occupation-number 'array' of machine integers: basis[..., j] and basis.shape"""
    def __init__(self, items):
        self.items = items
        self.shape = (len(items),)
    def __getitem__(self, idx):
        if isinstance(idx, tuple):
            idx = [k for k in idx if k is not Ellipsis][-1]
        return self.items[int(idx)]


def h_index_array_whole(env, d, N, which):
    """get_index_in_fock_space_array / ..._subspace_array on ONE symbolic occupation vector (the functions
    are elementwise over the leading axes), arr_comb replaced by its contract (verified by arr_comb_step):
    accumulators of the declared dtypes never overflow while the index is below 2^31, and the result is
    the rank sum_i C(s_i + i, i + 1)."""
    fnc = indices.get_index_in_fock_space_array if which == "space" else indices.get_index_in_fock_subspace_array
    if env.mode == "num":
        v = [env.ivar("v%d" % j, 0, N) for j in range(d)]
        env.num_assumptions.append(("sum(v)+d<=N", sum(v) + d <= N))
        want, s_ = 0, 0
        for i in range(d if which == "space" else d - 1):
            s_ += v[-1 - i]
            want += math.comb(s_ + i, i + 1)
        env.num_assumptions.append(("index<2^31", want < 2 ** 31))
        got = int(fnc(numpy.array([v], dtype=numpy.int32))[0])
        env.records.append(("array index == rank", "eq", got, want, []))
        return
    binom = _binom_env(env, N)
    vs = [env.ivar("v%d" % j, 0, N) for j in range(d)]
    env.assume("sum(v)+d<=N", z3.Sum(vs) + d <= N)
    want, s_ = z3.IntVal(0), z3.IntVal(0)
    for i in range(d if which == "space" else d - 1):
        s_ = s_ + vs[-1 - i]
        want = want + binom(s_ + i, z3.IntVal(i + 1))
    env.assume("index<2^31", want < 2 ** 31)
    fn = fnc.py_func
    env.functions.append(core.fn_ref(fnc))
    env.stubs += ["arr_comb -> its contract binom(n, k) (0 where n < k or n < 0), established by the arr_comb_step obligations",
                  "module-global np -> scalar machine-integer facade with dtype widths; the array functions are elementwise, one symbolic vector is analysed"]
    g2 = dict(fn.__globals__)
    g2["np"] = si.SINP()

    def arr_comb_contract(n, k):
        n = si.SI.lift(n)
        return si.SI(z3.If(z3.Or(n.e < 0, n.e < k), z3.IntVal(0 if k > 0 else 1), binom(n.e, z3.IntVal(int(k)))), 64)
    g2["arr_comb"] = arr_comb_contract
    import types
    f2 = types.FunctionType(fn.__code__, g2, fn.__name__, fn.__defaults__, fn.__closure__)
    r = f2(_Vec([si.SI(x, 32) for x in vs]))
    env.holds("result == rank", si.SI.lift(r).e == want)


h_index_array_whole.replay_any = True


def _sample_index(rng, d, N, which="space"):
    v = [rng.randint(0, max(0, (N - d) // d)) for _ in range(d)]
    return {"v%d" % j: v[j] for j in range(d)}


h_index_array_whole.sampler = _sample_index


def h_partitions_step(env, boxes, P):
    """One iteration of partitions' enumeration loop from an arbitrary state satisfying the invariant
    0 <= sep[0] < sep[1] < ... <= positions - 1 (not the last composition): every value stored into
    `separators` and `result` fits its declared dtype, for all particle numbers <= P."""
    import itertools as _it
    if env.mode == "num":
        p_ = env.ivar("particles", 0, P)
        for j in range(boxes - 1):
            env.ivar("sep%d" % j, 0, P + boxes)
        got = combinatorics.partitions(boxes, p_)
        want = sorted([v for v in _it.product(range(p_ + 1), repeat=boxes) if sum(v) == p_], key=lambda v: tuple(-x for x in v)) if p_ <= 400 else None
        ok = want is None or [tuple(int(x) for x in r) for r in got] == want
        env.records.append(("partitions(boxes, particles) == definition", "holds", ok, None, []))
        return
    pre, loop, post, glb, args = si.split_loop(combinatorics.partitions, kind=__import__("ast").While)
    env.functions.append(core.fn_ref(combinatorics.partitions))
    env.stubs += ["partitions: pre-loop statements executed to obtain the declared dtypes; comb -> fresh size; one loop iteration from an arbitrary state satisfying the stated invariant"]
    particles = env.ivar("particles", 0, P)
    g2 = dict(glb)
    g2["np"] = si.SINP()
    size = env.ivar("size", 2, 2 ** 31 - 1)
    g2["comb"] = lambda a, b: si.SI(size, 64)
    ns = {"boxes": boxes, "particles": si.SI(particles, 64), "out": None}
    si.exec_stmts(pre, ns, g2)
    sep = ns["separators"]
    positions = si.SI.lift(ns["positions"]).e
    # arbitrary state satisfying the invariant; not the final composition (index >= 1 remains)
    vals = [env.ivar("sep%d" % j, 0, P + boxes) for j in range(boxes - 1)]
    for j in range(boxes - 1):
        env.assume("sep%d<=positions-(boxes-1-%d)" % (j, j), vals[j] <= positions - (boxes - 1 - j))
        if j:
            env.assume("sep%d>sep%d" % (j, j - 1), vals[j] > vals[j - 1])
    env.assume("not the last composition", vals[0] < positions - (boxes - 1))
    env.assume("values fit the declared dtype of separators (they were stored before)", z3.And([z3.And(v >= -(2 ** (sep.bits - 1)), v <= 2 ** (sep.bits - 1) - 1) for v in vals]))
    sep.items = [si.SI(v, sep.bits) for v in vals]
    idx = env.ivar("index", 1, 2 ** 31 - 2)
    ns["index"] = si.SI(idx, 64)
    si.exec_once(loop.body, ns, g2)
    new = [si.SI.lift(x).e for x in ns["separators"].items]
    conj = [new[j] <= positions - (boxes - 1 - j) for j in range(boxes - 1)] + [new[j] > new[j - 1] for j in range(1, boxes - 1)] + [new[0] >= 0]
    env.holds("invariant preserved", z3.And(conj))


h_partitions_step.replay_any = True


def _sample_partitions(rng, boxes, P):
    return {"particles": rng.randint(0, 6)}


h_partitions_step.sampler = _sample_partitions

HARNESSES = {"arr_comb_step": h_arr_comb_step, "comb_whole": h_comb_whole, "index_array_whole": h_index_array_whole, "partitions_step": h_partitions_step}


# ----------------------------------------------------------------------------- E-CH harness file
HEADER = '''from typing import Tuple
import types
import numpy as np
from piquasso._math import combinatorics, indices, fock
from piquasso.fermionic import _utils as futils

# tables are produced by the real (compiled) enumerators before anything is substituted
_BT = {dc: tuple(tuple(int(x) for x in r) for r in fock.nb_get_fock_space_basis(*dc)) for dc in __BOS__}
_FT = {d: tuple(tuple(int(x) for x in r) for r in futils.get_fock_space_basis(d, d + 1)) for d in __FER__}

# module-global substitution: the numba dispatchers are replaced by their Python sources so that
# the real function bodies run under symbolic execution (this process only)
for _m in (combinatorics, indices, fock, futils):
    for _n, _o in list(vars(_m).items()):
        if hasattr(_o, "py_func"):
            setattr(_m, _n, _o.py_func)
futils.nb = types.SimpleNamespace(int64=np.int64, int32=np.int32)


class _L(list):
    dtype = np.int64


class _ListNP:
    """numpy shim for the fermionic helpers: 1-d integer arrays become Python lists, so that no
    symbolic value crosses numpy's C boundary"""
    int64 = np.int64
    def zeros(self, n=None, dtype=None, shape=None):
        return _L([0] * int(n if n is not None else shape))
    def empty(self, n, dtype=None):
        return _L([0] * int(n))


futils.np = _ListNP()
_REAL_FTABLE = None


def _table(d, c):
    return _BT[(d, c)]


def _ftable(d):
    return _FT[d]


def _documented_order(T):
    """by particle number, anti-lexicographic within a sector, every vector exactly once"""
    keys = [(sum(v), tuple(-x for x in v)) for v in T]
    return keys == sorted(keys) and len(set(T)) == len(T)

'''


def build_source(tier):
    bos = [(1, 4), (2, 3), (2, 5), (3, 3), (3, 4)] if tier == "quick" else [(1, 6), (2, 4), (2, 7), (3, 4), (3, 6), (4, 4), (4, 5), (5, 4), (6, 3)]
    fer = [2, 3, 4] if tier == "quick" else [2, 3, 4, 5, 6, 7]
    parts = [HEADER.replace("__BOS__", repr(bos)).replace("__FER__", repr(fer))]
    conds = []
    for d, c in bos:
        tag = "%d_%d" % (d, c)
        ty = "Tuple[%s]" % ", ".join(["int"] * d)
        parts.append("T_%s = _table(%d, %d)\nassert len(T_%s) == fock.cutoff_fock_space_dim(%d, %d) and _documented_order(T_%s) and all(sum(v) < %d for v in T_%s)\n"
                     "assert len(T_%s) == sum(fock.symmetric_subspace_cardinality(%d, n) for n in range(%d))\n\n"
                     % (tag, d, c, tag, c, d, tag, c, tag, tag, d, c))
        parts.append('def index_inverse_%s(v: %s) -> bool:\n    """\n    pre: all(x >= 0 for x in v) and sum(v) < %d\n    post: _\n    """\n'
                     '    i = indices.get_index_in_fock_space(v)\n    return 0 <= i < len(T_%s) and T_%s[i] == v\n\n' % (tag, ty, c, tag, tag))
        conds.append({"fn": "index_inverse_%s" % tag, "desc": "d=%d cutoff=%d: basis[get_index_in_fock_space(v)] == v for every occupation vector with sum < cutoff (bijection + documented order of the real enumeration)" % (d, c)})
        parts.append('def subspace_index_%s(v: %s) -> bool:\n    """\n    pre: all(x >= 0 for x in v) and sum(v) < %d\n    post: _\n    """\n'
                     '    n = sum(v)\n    return indices.get_index_in_fock_subspace(v) + fock.cutoff_fock_space_dim(n, %d) == indices.get_index_in_fock_space(v) '
                     'and 0 <= indices.get_index_in_fock_subspace(v) < fock.symmetric_subspace_cardinality(%d, n)\n\n' % (tag, ty, c, d, d))
        conds.append({"fn": "subspace_index_%s" % tag, "desc": "d=%d cutoff=%d: sub-space index + dimension of the lower sectors == full index, and it is within the sector" % (d, c)})
        parts.append('def index_monotone_%s(v: %s, w: %s) -> bool:\n    """\n    pre: all(x >= 0 for x in v) and sum(v) < %d and all(x >= 0 for x in w) and sum(w) < %d\n    post: _\n    """\n'
                     '    kv = (sum(v), tuple(-x for x in v))\n    kw = (sum(w), tuple(-x for x in w))\n'
                     '    return (kv < kw) == (indices.get_index_in_fock_space(v) < indices.get_index_in_fock_space(w))\n\n' % (tag, ty, ty, c, c))
        conds.append({"fn": "index_monotone_%s" % tag, "desc": "d=%d cutoff=%d: the index is strictly monotone w.r.t. the documented order (pairs of symbolic vectors)" % (d, c), "timeout_s": 60})
    parts.append('def twin_index(v: Tuple[int, int]) -> bool:\n    """\n    pre: all(x >= 0 for x in v) and sum(v) < 3\n    post: False\n    """\n    return indices.get_index_in_fock_space(v) >= 0\n\n')
    conds.append({"fn": "twin_index", "twin": True})
    # vectorised index on the same tables (concrete facts, evaluated when the harness is imported)
    parts.append("for _T in (%s):\n    _a = np.array(_T, dtype=np.int32)\n    assert list(indices.get_index_in_fock_space_array(_a)) == list(range(len(_T)))\n"
                 "    assert [int(x) for x in indices.get_index_in_fock_subspace_array(_a)] == [indices.get_index_in_fock_subspace(v) for v in _T]\n\n"
                 % ", ".join("T_%d_%d" % dc for dc in bos))
    for d in fer:
        ty = "Tuple[%s]" % ", ".join(["int"] * d)
        parts.append("F_%d = _ftable(%d)\nassert len(F_%d) == 2 ** %d == futils.get_cutoff_fock_space_dimension(%d, %d) and len(set(F_%d)) == len(F_%d)\n"
                     "assert [sum(v) for v in F_%d] == sorted(sum(v) for v in F_%d)\n\n" % (d, d, d, d, d, d + 1, d, d, d, d))
        parts.append('def fermionic_index_inverse_%d(v: %s) -> bool:\n    """\n    pre: all(0 <= x <= 1 for x in v)\n    post: _\n    """\n'
                     '    i = futils.get_fock_space_index(v)\n    return 0 <= i < len(F_%d) and F_%d[i] == v\n\n' % (d, ty, d, d))
        conds.append({"fn": "fermionic_index_inverse_%d" % d, "desc": "fermionic d=%d: basis[get_fock_space_index(v)] == v for every 0/1 occupation vector" % d, "timeout_s": 60})
        parts.append('def fermionic_successor_%d(v: %s) -> bool:\n    """\n    pre: all(0 <= x <= 1 for x in v) and sum(v) < %d\n    post: _\n    """\n'
                     '    fq = _L(int(x) for x in futils._to_first_quantized(v))\n    nxt = futils.next_first_quantized(fq, %d)\n'
                     '    w = tuple(int(x) for x in futils._to_second_quantized(nxt, %d))\n'
                     '    return futils.get_fock_space_index(w) == futils.get_fock_space_index(v) + 1\n\n' % (d, ty, d, d, d))
        conds.append({"fn": "fermionic_successor_%d" % d, "desc": "fermionic d=%d: one next_first_quantized step from any state raises the rank by exactly one" % d, "timeout_s": 60})
    return "".join(parts), conds, bos, fer


EXPLANATION = (
    "Bounded symbolic verification. CrossHair executes the real Python sources of the ranking functions (numba .py_func, module-global substitution) on a "
    "symbolic occupation vector and confirms, for each listed (d, cutoff), that the table produced by the real enumerator satisfies table[index(v)] == v "
    "for every admissible v (which makes enumeration and index mutually inverse and fixes the order), strict monotonicity w.r.t. the documented order, "
    "sub-space index + sector offset == index, and for fermions the same plus 'successor raises the rank by one'. The vectorised index is tied to the "
    "tables concretely, and its integer kernel arr_comb is verified by one inductive loop step over machine integers: z3 decides, with a binomial lookup "
    "table for n <= N, that no int64 product overflows whenever C(n,k) is below the 32-bit index range and that the loop invariant prod == C(n, i) is preserved."
)


def run(rep, tier, seed, opts):
    only = opts.get("only")
    N = 72 if tier == "quick" else 160
    if not only or any(t in only for t in ("arr_comb", "comb_whole", "index_array", "partitions_step")):
        o = {"timeout_s": 120 if tier == "quick" else 600, "instance_timeout_s": 900, "seed": seed, "validation_points": 0}
        steps = range(N) if tier == "thorough" else sorted(set(range(0, 22)) | {30, 40, 50, 60, 66, 70})
        inst = [("arr_comb_step", {"N": N, "i": i}) for i in steps if i < N]
        inst += [("comb_whole", {"N": N, "side": "k", "c": c}) for c in (range(0, 18) if tier == "thorough" else (0, 1, 2, 3, 5, 8, 11, 13, 14, 15, 16, 17))]
        inst += [("comb_whole", {"N": N, "side": "m", "c": c}) for c in (range(0, 17) if tier == "thorough" else (0, 1, 2, 4, 8, 14, 16))]
        for d in (1, 2, 3, 4) if tier == "quick" else (1, 2, 3, 4, 5, 6):
            inst.append(("index_array_whole", {"d": d, "N": N, "which": "space"}))
            if d > 1:
                inst.append(("index_array_whole", {"d": d, "N": N, "which": "subspace"}))
        for boxes in (2, 3, 4):
            inst.append(("partitions_step", {"boxes": boxes, "P": 60000 if boxes == 2 else 2000}))
        if only:
            inst = [i_ for i_ in inst if only in i_[0]]
        for r in core.run_instances(__name__, inst, o, jobs=opts.get("jobs")):
            rep.add_instance_result(__name__, r)
    source, conds, bos, fer = build_source(tier)
    if only:
        conds = [c for c in conds if only in c["fn"]]
    for f in (indices.get_index_in_fock_space, indices.get_index_in_fock_subspace, indices.get_index_in_fock_space_array, indices.get_index_in_fock_subspace_array,
              combinatorics.comb, combinatorics.partitions, fock.nb_get_fock_space_basis, fock.cutoff_fock_space_dim, fock.symmetric_subspace_cardinality,
              futils.get_fock_space_index, futils._get_fock_space_index_first_quantized, futils.get_fock_subspace_index_first_quantized,
              futils._to_first_quantized, futils.next_first_quantized, futils._to_second_quantized, futils.get_fock_space_basis, futils.get_cutoff_fock_space_dimension):
        rep.note_function(f)
    rep.bounds = {"bosonic (d, cutoff)": bos, "fermionic d": fer, "arr_comb": "all 0<=k<=n<=%d with C(n,k)<2^31 (n, k symbolic); loop iterations: all i<%d (thorough) / i<22 and six larger ones (quick)" % (N, N), "comb": "whole function, k or n-k concrete <= 17, other argument symbolic <= %d" % N, "index arrays": "one symbolic occupation vector, d<=4 (6), sum+d<=%d" % N, "partitions": "one loop iteration, boxes 2..4, particles <= 60000 (boxes=2) / 2000",
                  "outside": "larger (d, cutoff) for the symbolic-vector checks; n > %d for arr_comb; the int32 accumulators of the *_array functions are covered only through the tables" % N}
    if conds:
        ch.run_conditions(rep, source, conds, timeout_s=30 if tier == "quick" else 120, per_path=10, jobs=opts.get("jobs"))
    return rep.finish(level="other", explanation=EXPLANATION)
