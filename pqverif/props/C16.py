"""C16 - relabelling modes relabels the result; disjoint gates commute (E-XA)."""
import itertools

import numpy

import piquasso as pq
from piquasso._simulators.gaussian import simulation_steps as gs
from piquasso._simulators.gaussian.state import GaussianState
from piquasso._simulators.passive import simulation_steps as ps
from piquasso._simulators.passive.state import PassiveState

from .. import xa, core
from . import common as cm
from . import C07


def _copy_state(s):
    return GaussianState._from_representation(m=s._m.copy(), G=s._G.copy(), C=s._C.copy(), config=s._config, connector=s._connector)


def _permuted_state(env, s, perm):
    """the same physical state with mode i renamed perm[i]"""
    d = len(perm)
    inv = [0] * d
    for i, p in enumerate(perm):
        inv[p] = i
    m = s._m[inv]
    C = s._C[numpy.ix_(inv, inv)]
    G = s._G[numpy.ix_(inv, inv)]
    return GaussianState._from_representation(m=m.copy(), G=G.copy(), C=C.copy(), config=s._config, connector=s._connector)


def h_gaussian_relabel(env, gate, d, modes, perm):
    """run(pi . program) == pi . run(program) on the Gaussian simulator, generic state."""
    modes, perm = tuple(modes), tuple(perm)
    conn = cm.connector(env)
    cfg = cm.config(env)
    s = cm.generic_gaussian_state(env, d, cfg, conn=conn)
    sp = _permuted_state(env, s, perm)
    i1, p = C07.make_gate(env, gate)
    cls = C07.GATES[gate][0]
    i2 = cls(**p)
    i1 = i1.on_modes(*modes)
    i2 = i2.on_modes(*[perm[m] for m in modes])
    C07._encoded_action_functions(env)
    with cm.patched_np(env, gs):
        a = C07._run_step(env, i1, s)
        b = C07._run_step(env, i2, sp)
    want = _permuted_state(env, a, perm)
    env.equal("m", b._m, want._m)
    env.equal("C", b._C, want._C)
    env.equal("G", b._G, want._G)


def h_gaussian_commute(env, gate1, modes1, gate2, modes2, d):
    """two gates on disjoint supports can be exchanged (Gaussian simulator, generic state)."""
    conn = cm.connector(env)
    cfg = cm.config(env)
    s = cm.generic_gaussian_state(env, d, cfg, conn=conn)
    t = _copy_state(s)
    a1, _ = C07.make_gate(env, gate1, "a_")
    b1, _ = C07.make_gate(env, gate2, "b_")
    a2, _ = C07.make_gate(env, gate1, "a_")
    b2, _ = C07.make_gate(env, gate2, "b_")
    C07._encoded_action_functions(env)
    with cm.patched_np(env, gs):
        x = C07._run_step(env, b1.on_modes(*modes2), C07._run_step(env, a1.on_modes(*modes1), s))
        y = C07._run_step(env, a2.on_modes(*modes1), C07._run_step(env, b2.on_modes(*modes2), t))
    env.equal("m", x._m, y._m)
    env.equal("C", x._C, y._C)
    env.equal("G", x._G, y._G)


def _passive_state(env, d, conn, cfg, post=()):
    st = PassiveState(d=d, connector=conn, config=cfg)
    st.interferometer = env.cplx_mat("U", d)
    for mode, photons in post:
        st._postselections[mode] = photons
    return st


def h_passive_relabel(env, d, modes, perm):
    """PassiveState: applying a generic k x k matrix on `modes` and then renaming the modes equals
    renaming first and applying it on the renamed modes."""
    modes, perm = tuple(modes), tuple(perm)
    k = len(modes)
    conn = cm.connector(env)
    cfg = cm.config(env, cutoff=4)
    st = _passive_state(env, d, conn, cfg)
    M = env.cplx_mat("M", k)
    inv = [0] * d
    for i, p in enumerate(perm):
        inv[p] = i
    st2 = PassiveState(d=d, connector=conn, config=cfg)
    st2.interferometer = st.interferometer[numpy.ix_(inv, list(range(d)))].copy()    # output modes renamed; inputs stay
    env.functions += [core.fn_ref(ps._apply_matrix_on_modes), core.fn_ref(PassiveState._get_active_modes)]
    env.stubs.append("connector.np -> pqverif numpy facade")
    ps._apply_matrix_on_modes(st, M, modes)
    ps._apply_matrix_on_modes(st2, M, tuple(perm[m] for m in modes))
    env.equal("interferometer", st2.interferometer, st.interferometer[numpy.ix_(inv, list(range(d)))])


def h_passive_commute(env, d, modes1, modes2, post):
    """PassiveState: matrices on disjoint mode sets commute, also when earlier post-selections
    shift the active-mode numbering."""
    conn = cm.connector(env)
    cfg = cm.config(env, cutoff=4)
    post = [tuple(p) for p in post]
    dd = d + len(post)
    st = _passive_state(env, dd, conn, cfg, post)
    st2 = PassiveState(d=dd, connector=conn, config=cfg)
    st2.interferometer = st.interferometer.copy()
    for mode, photons in post:
        st2._postselections[mode] = photons
    A = env.cplx_mat("A", len(modes1))
    B = env.cplx_mat("B", len(modes2))
    env.functions += [core.fn_ref(ps._apply_matrix_on_modes), core.fn_ref(PassiveState._get_active_modes)]
    ps._apply_matrix_on_modes(st, A, tuple(modes1))
    ps._apply_matrix_on_modes(st, B, tuple(modes2))
    ps._apply_matrix_on_modes(st2, B, tuple(modes2))
    ps._apply_matrix_on_modes(st2, A, tuple(modes1))
    env.equal("interferometer", st.interferometer, st2.interferometer)
    # and the embedding touches exactly the addressed active modes: rows of the others are unchanged
    active = [m for m in range(dd) if m not in dict(post)]
    touched = {active[m] for m in tuple(modes1) + tuple(modes2)}
    U0 = _passive_state(env, dd, conn, cfg, post).interferometer if False else None
    rest = [m for m in range(dd) if m not in touched]
    if rest:
        orig = env.cplx_mat("U", dd)
        env.equal("untouched rows", st.interferometer[rest, :], orig[rest, :])


def h_remap(env):
    """Simulator._remap_modes / _remap_modes_inverse / _delete_modes_from_active for a solver-chosen set of
    active modes (subset of 0..4) and an ORDERED pair of distinct active modes: positions are returned in the
    user's order; inverse and deletion are consistent."""
    from piquasso.api.simulator import Simulator
    mask = [env.pick_int("in%d" % k, 0, 1) for k in range(5)]
    active = tuple(k for k in range(5) if mask[k])
    a = env.pick_int("a", 0, 4)
    b = env.pick_int("b", 0, 4)
    if a == b or a not in active or b not in active:
        if env.mode == "sym":
            raise xa.PathAbort("not a valid request")
        env.num_assumptions.append(("valid", False))
        return
    env.functions += [core.fn_ref(Simulator._remap_modes), core.fn_ref(Simulator._remap_modes_inverse), core.fn_ref(Simulator._delete_modes_from_active)]
    r = Simulator._remap_modes(active, (a, b))
    ok = tuple(r) == (active.index(a), active.index(b))
    ok = ok and tuple(Simulator._remap_modes_inverse(active, r)) == (a, b)
    rest = Simulator._delete_modes_from_active(active, r)
    ok = ok and tuple(rest) == tuple(m for m in active if m not in (a, b))
    env.holds("remap keeps the user's order; inverse and deletion consistent (active=%s modes=%s -> %s)" % (active, (a, b), tuple(r)) if not ok else "remap consistent", bool(ok))


def h_execution_remap(env):
    """end to end on the real Simulator pipeline with recording stub steps: after a mid-circuit measurement of
    a solver-chosen mode, a two-mode gate on ordered (a, b) is executed on the positions of a and b among the
    remaining modes IN THE USER'S ORDER, and a relabelled program is executed on the relabelled positions."""
    from . import C12
    ns = _plain_c12()
    m = env.pick_int("m", 0, 3)
    a = env.pick_int("a", 0, 3)
    b = env.pick_int("b", 0, 3)
    if len({m, a, b}) < 3:
        if env.mode == "sym":
            raise xa.PathAbort("distinct")
        env.num_assumptions.append(("valid", False))
        return
    pq_ = ns["pq"]
    log = []
    orig = ns["step"]

    def rec(state, instruction, shots):
        log.append(tuple(instruction.modes))
        return orig(state, instruction, shots)
    ns["Sim"]._instruction_map = {ns["G1"]: rec, ns["G2"]: rec, ns["M"]: ns["mstep"]}
    ns["_arm"](-1, -1)
    prog = pq_.Program(instructions=[ns["M"]().on_modes(m), ns["G2"](0.3).on_modes(a, b)])
    ns["Sim"](d=4).execute(prog, shots=1)
    remaining = [x for x in range(4) if x != m]
    env.functions.append(core.fn_ref(__import__("piquasso").api.simulator.Simulator._do_execute_instructions))
    env.holds("gate executed on the positions of (a, b) in the user's order", log == [(remaining.index(a), remaining.index(b))])


_PLAIN12 = {}


def _plain_c12():
    from . import C12
    if not _PLAIN12:
        exec(compile(C12.HEADER, "<C12 header>", "exec"), _PLAIN12)
    return _PLAIN12


def h_fock_linear_glue(env, sim, d, modes):
    """pure / mixed Fock `linear` step (active multi-mode gates): with the Bloch-Messiah factors stubbed by
    arbitrary markers (euler is LAPACK), the first interferometer, the k single-mode squeezers and the last
    interferometer are applied to the instruction's modes - squeezer k on modes[k]."""
    from piquasso._simulators.fock.pure import simulation_steps as psteps_
    from piquasso._simulators.fock.general import simulation_steps as gsteps_
    from piquasso._simulators.fock.pure.state import PureFockState
    from piquasso._simulators.fock.general.state import FockState
    modes = tuple(modes)
    k = len(modes)
    mod = psteps_ if sim == "pure" else gsteps_
    conn = cm.connector(env)
    cfg = cm.config(env, cutoff=2)
    st = (PureFockState if sim == "pure" else FockState)(d=d, connector=conn, config=cfg)
    UL, UF = object(), object()
    sq = [object() for _ in range(k)]
    log = []
    saved = {n: getattr(mod, n) for n in ("euler", "_apply_passive_linear") + (("_apply_squeezing",) if sim == "pure" else ("get_single_mode_squeezing_operator", "_apply_active_gate_matrix_to_state"))}
    try:
        mod.euler = lambda symplectic, connector: (UL, sq, UF)
        mod._apply_passive_linear = lambda state, U, m, *a: log.append(("passive", U, tuple(m)))
        if sim == "pure":
            mod._apply_squeezing = lambda state, r, phi, mode: log.append(("squeeze", r, mode))
        else:
            mod.get_single_mode_squeezing_operator = lambda r, phi, connector, cutoff, complex_dtype: ("op", r)
            mod._apply_active_gate_matrix_to_state = lambda state, matrix, mode: log.append(("squeeze", matrix[1], mode))
        inst = pq.Squeezing2(r=0.3, phi=0.2).on_modes(*modes) if k == 2 else pq.GaussianTransform(numpy.identity(k), numpy.zeros((k, k))).on_modes(*modes)
        mod.linear(st, inst, None)
    finally:
        for n, v in saved.items():
            setattr(mod, n, v)
    want = [("passive", UF, modes)] + [("squeeze", sq[j], modes[j]) for j in range(k)] + [("passive", UL, modes)]
    env.functions.append(core.fn_ref(mod.linear))
    env.stubs.append("euler (LAPACK polar/logm/svd) -> arbitrary marker factors; _apply_passive_linear / squeezing application -> recorders")
    env.holds("factors applied to the instruction's modes in order (got %s)" % ([(t, m) for t, _, m in log],), log == want)


HARNESSES = {"remap": h_remap, "execution_remap": h_execution_remap, "fock_linear_glue": h_fock_linear_glue, "gaussian_relabel": h_gaussian_relabel, "gaussian_commute": h_gaussian_commute,
             "passive_relabel": h_passive_relabel, "passive_commute": h_passive_commute}


def instances(tier, seed):
    out = []
    d = 3
    perms = list(itertools.permutations(range(d)))
    one = ["Phaseshifter", "Squeezing", "QuadraticPhase"]
    two = ["Beamsplitter", "Squeezing2", "ControlledZ", "MachZehnder", "ControlledX"]
    for g in one + two:
        k = C07.GATES[g][2]
        subs = cm.ordered_subsets(d, k)
        if tier == "quick":
            subs = subs[::2] if k == 2 else subs[:2]
        for m in subs:
            for pi in (perms if tier == "thorough" else [perms[3], perms[4], perms[1]]):
                if pi == tuple(range(d)):
                    continue
                out.append(("gaussian_relabel", {"gate": g, "d": d, "modes": list(m), "perm": list(pi)}))
    if tier == "thorough":
        d4 = 4
        for g in ("Beamsplitter", "Squeezing2"):
            for m in [(3, 1), (0, 2), (2, 3)]:
                for pi in [(1, 3, 0, 2), (3, 2, 1, 0), (2, 0, 3, 1)]:
                    out.append(("gaussian_relabel", {"gate": g, "d": d4, "modes": list(m), "perm": list(pi)}))
    pairs = [("Squeezing", (0,), "Beamsplitter", (2, 1), 3), ("Squeezing2", (2, 0), "Phaseshifter", (1,), 3), ("QuadraticPhase", (1,), "Squeezing", (0,), 2),
             ("Beamsplitter", (3, 0), "Squeezing2", (1, 2), 4)]
    if tier == "thorough":
        pairs += [("ControlledZ", (0, 3), "MachZehnder", (2, 1), 4), ("Squeezing", (2,), "ControlledX", (0, 1), 3), ("Squeezing2", (0, 1), "Squeezing2", (3, 2), 4),
                  ("Phaseshifter", (0,), "Beamsplitter", (1, 2), 4)]
    for g1, m1, g2, m2, dd in pairs:
        out.append(("gaussian_commute", {"gate1": g1, "modes1": list(m1), "gate2": g2, "modes2": list(m2), "d": dd}))
    for dd in (2, 3) if tier == "quick" else (2, 3, 4):
        for k in (1, 2):
            if k > dd:
                continue
            subs = cm.ordered_subsets(dd, k)
            if dd == 4:
                subs = subs[::3]
            for m in subs:
                ps_ = list(itertools.permutations(range(dd)))
                for pi in (ps_[1:] if (tier == "thorough" and dd <= 3) else [ps_[-1], ps_[len(ps_) // 2]]):
                    out.append(("passive_relabel", {"d": dd, "modes": list(m), "perm": list(pi)}))
    out.append(("remap", {}))
    out.append(("execution_remap", {}))
    for sim in ("pure", "mixed"):
        for d, m in ((3, (1, 2)), (3, (2, 0)), (4, (3, 1)), (4, (2, 0, 3))):
            out.append(("fock_linear_glue", {"sim": sim, "d": d, "modes": list(m)}))
    out.append(("passive_commute", {"d": 3, "modes1": [2], "modes2": [0, 1], "post": []}))
    out.append(("passive_commute", {"d": 3, "modes1": [1, 0], "modes2": [2], "post": [[1, 1]]}))
    out.append(("passive_commute", {"d": 2, "modes1": [1], "modes2": [0], "post": [[0, 2]]}))
    out.append(("passive_commute", {"d": 4, "modes1": [3, 0], "modes2": [2, 1], "post": []}))
    if tier == "thorough":
        out.append(("passive_commute", {"d": 4, "modes1": [3, 1], "modes2": [0, 2], "post": [[2, 1], [0, 0]]}))
        out.append(("passive_commute", {"d": 3, "modes1": [0, 2], "modes2": [1], "post": [[3, 1]]}))
    return out


EXPLANATION = (
    "Bounded symbolic verification of mode-index bookkeeping: the real Gaussian update rules (get_operator_index / get_auxiliary_operator_index based) "
    "and the passive simulator's _apply_matrix_on_modes (incl. active-mode shifting after post-selection) are executed on generic symbolic states and "
    "generic gate parameters / matrices; z3 decides, for every listed permutation of the labels and ordered mode tuple, that running the relabelled "
    "program equals relabelling the result, and that gates on disjoint supports commute."
)


def run(rep, tier, seed, opts):
    inst = instances(tier, seed)
    if opts.get("only"):
        inst = [i for i in inst if opts["only"] in i[0] or opts["only"] in str(i[1])]
    rep.bounds = {"gaussian": "d=3 (thorough: also d=4), all (quick: 3) non-trivial permutations, ordered mode tuples", "passive": "d<=3 (4), generic complex k x k matrices, k<=2, post-selected modes",
                  "outside": "Fock-space index tables (covered with C01 machinery when built), fermionic simulators (C17), outcome tuples of measurements"}
    o = {"timeout_s": 60 if tier == "quick" else 300, "instance_timeout_s": 400 if tier == "quick" else 1800, "seed": seed, "validation_points": 1}
    light = [i for i in inst if i[0] in ("remap", "execution_remap")]
    heavy = [i for i in inst if i[0] not in ("remap", "execution_remap")]
    for r in core.run_instances(__name__, heavy, o, jobs=opts.get("jobs")):
        rep.add_instance_result(__name__, r)
    if light:
        o2 = dict(o, light_paths=True, path_budget=20000, validation_points=0)
        for r in core.run_instances(__name__, light, o2, jobs=opts.get("jobs")):
            rep.add_instance_result(__name__, r)
    return rep.finish(level="other", explanation=EXPLANATION)
