"""C15 - matrix decompositions reconstruct their input (E-XA) - PARTIAL: the Clements decomposition
and its helpers.  Takagi / Williamson / Euler call LAPACK (svd, schur, sqrtm, polar, logm) and the
graph embedding uses scipy's root finder; they are not claimed."""
import math

import numpy

import piquasso as pq
from piquasso.decompositions import clements as cl

from .. import xa, core
from . import common as cm


def _arr(env, rows):
    return xa.xarr(numpy.array(rows, dtype=object)) if env.mode == "sym" else numpy.array(rows, dtype=complex)


def u2(env, tag=""):
    """every 2x2 unitary: diag(e^{ia}, e^{ib}) . [[cos t, -e^{-ip} sin t], [e^{ip} sin t, cos t]]"""
    np = env.np
    a, b, t, p = (env.param(tag + n) for n in ("a", "b", "t", "p"))
    B = _arr(env, [[np.cos(t), -np.exp(-1j * p) * np.sin(t)], [np.exp(1j * p) * np.sin(t), np.cos(t)]])
    D = _arr(env, [[np.exp(1j * a), 0], [0, np.exp(1j * b)]])
    return D @ B


def u3(env):
    """a 3x3 unitary as D . B(1,2) . B(0,1) . B(1,2)' (enough generic structure for every branch of the
    nulling order; not all of U(3))"""
    np = env.np

    def emb(B, i, j):
        M = _arr(env, [[1, 0, 0], [0, 1, 0], [0, 0, 1]])
        M[i, i], M[i, j], M[j, i], M[j, j] = B[0, 0], B[0, 1], B[1, 0], B[1, 1]
        return M

    def bs(k):
        t, p = env.param("t%d" % k), env.param("p%d" % k)
        return _arr(env, [[np.cos(t), -np.exp(-1j * p) * np.sin(t)], [np.exp(1j * p) * np.sin(t), np.cos(t)]])
    return emb(bs(0), 1, 2) @ emb(bs(1), 0, 1) @ emb(bs(2), 1, 2)


def h_clements_roundtrip(env, d, via):
    """inverse_clements(clements(U)) == U (via='inverse'), through the weight vector (via='weights'),
    and as the product of the emitted Beamsplitter / Phaseshifter gate blocks (via='instructions');
    every path of the isclose(., 0) branches is followed."""
    conn = cm.connector(env)
    U = u2(env) if d == 2 else u3(env)
    env.functions += [core.fn_ref(cl.clements), core.fn_ref(cl.inverse_clements), core.fn_ref(cl._get_angles), core.fn_ref(cl._commute), core.fn_ref(cl._get_commute_angles),
                      core.fn_ref(cl._apply_direct_beamsplitters), core.fn_ref(cl._apply_inverse_beamsplitters), core.fn_ref(cl._get_embedded_beamsplitter_matrix)]
    env.stubs.append("np.arctan / np.angle of symbolic values -> angle objects carrying (cos, sin); np.mod(., 2 pi) keeps the phase")
    dec = cl.clements(U, conn)
    if via == "inverse":
        V = cl.inverse_clements(dec, conn, complex)
    elif via == "weights":
        env.functions += [core.fn_ref(cl.get_weights_from_decomposition), core.fn_ref(cl.get_decomposition_from_weights)]
        w = cl.get_weights_from_decomposition(dec, d, conn)
        V = cl.get_interferometer_from_weights(w, d, conn, complex)
    else:
        env.functions.append(core.fn_ref(cl.instructions_from_decomposition))
        cfg = cm.config(env)
        V = env.np.identity(d) if env.mode == "num" else xa.xnp.identity(d)
        for inst in cl.instructions_from_decomposition(dec):
            blk = inst._get_passive_block(conn, cfg)
            V = cm.embed(env, blk, inst.modes, d) @ V
    env.equal("reconstruction", V, U)


def h_commute_angles(env):
    """BS(theta, phi)^-1 D(phi1, phi2) == D(phi1', phi2') BS(theta', phi') for all angles."""
    np = env.np
    conn = cm.connector(env)
    th, ph, f1, f2 = (env.param(n) for n in ("theta", "phi", "phi1", "phi2"))
    env.functions.append(core.fn_ref(cl._get_commute_angles))
    thp, php, f1p, f2p = cl._get_commute_angles(th, ph, f1, f2, conn)

    def BS(t, p):
        return _arr(env, [[np.exp(1j * p) * np.cos(t), -np.sin(t)], [np.exp(1j * p) * np.sin(t), np.cos(t)]])

    def D(a, b):
        return _arr(env, [[np.exp(1j * a), 0], [0, np.exp(1j * b)]])
    lhs = cm.dagger(env, BS(th, ph)) @ D(f1, f2)
    rhs = D(f1p, f2p) @ BS(thp, php)
    env.equal("BS^-1 D == D' BS'", lhs, rhs)


def _my_bs(env, theta, phi, modes, d):
    """BS(theta, phi) of the Clements paper embedded on `modes` (written from the class docstring)"""
    np = env.np
    B = _arr(env, [[np.exp(1j * phi) * np.cos(theta), -np.sin(theta)], [np.exp(1j * phi) * np.sin(theta), np.cos(theta)]])
    return cm.embed(env, B, modes, d)


def h_nulling(env, d, column):
    """Claim A: with the REAL _get_angles, every Givens step of the given column nulls its target element,
    for a GENERIC complex matrix (every isclose branch is followed)."""
    conn = cm.connector(env)
    U = env.cplx_mat("u", d)
    env.functions += [core.fn_ref(cl._get_angles), core.fn_ref(cl._apply_direct_beamsplitters), core.fn_ref(cl._apply_inverse_beamsplitters), core.fn_ref(cl._get_embedded_beamsplitter_matrix)]
    env.stubs.append("np.arctan / np.angle of symbolic values -> angle objects carrying (cos, sin)")
    if column % 2 == 0:
        # direct: step j eliminates U[column + j, j] (checked right after the step by re-running prefixes)
        cur_ = U
        for j in range(d - 1 - column):
            modes = (column + j, column + j + 1)
            ang = cl._get_angles(cur_[modes[0], j], -cur_[modes[1], j], conn)
            cur_ = cl._get_embedded_beamsplitter_matrix(cl.BS(modes=modes, params=ang), d, conn, complex) @ cur_
            env.equal("direct step %d nulls U[%d,%d]" % (j, modes[1], j), cur_[modes[1], j], 0)
        ops, V = cl._apply_direct_beamsplitters(column, U, conn)
        env.equal("function result == step-by-step result", V, cur_)
    else:
        cur_ = U
        for j in reversed(range(d - 1 - column)):
            modes = (j, j + 1)
            i = column + j + 1
            ang = cl._get_angles(cur_[i, modes[1]], cur_[i, modes[0]], conn)
            cur_ = cur_ @ cm.dagger(env, cl._get_embedded_beamsplitter_matrix(cl.BS(modes=modes, params=ang), d, conn, complex))
            env.equal("inverse step %d nulls U[%d,%d]" % (j, i, modes[0]), cur_[i, modes[0]], 0)
        ops, V = cl._apply_inverse_beamsplitters(column, U, conn)
        env.equal("function result == step-by-step result", V, cur_)


def h_bookkeeping(env, d):
    """Claim B: for ARBITRARY nulling angles and final diagonal phases (both free symbols), the
    decomposition returned by clements() - after the phase commutation - recomposes, through
    inverse_clements, to  T_1^+ ... T_n^+ . D . S_m ... S_1  built from the recorded operations."""
    conn = cm.connector(env)
    U = env.cplx_mat("u", d)
    calls = []
    saved_get, saved_angle = cl._get_angles, xa.xnp.angle

    def fake_angles(a, b, connector):
        k = len(calls)
        th, ph = env.param("th%d" % k), env.param("ph%d" % k)
        calls.append((th, ph))
        return th, ph
    deltas = []

    def fake_angle(z):
        k = len(deltas)
        dl = env.param("delta%d" % k)
        deltas.append(dl)
        return dl
    env.functions += [core.fn_ref(cl.clements), core.fn_ref(cl._commute), core.fn_ref(cl._get_commute_angles), core.fn_ref(cl.inverse_clements)]
    env.stubs += ["_get_angles -> free symbolic angles (its nulling property is Claim A)", "np.angle of the final diagonal -> free symbolic phases"]
    rec = {"direct": [], "inverse": []}
    saved_direct, saved_inverse = cl._apply_direct_beamsplitters, cl._apply_inverse_beamsplitters

    def rec_direct(column, U_, connector):
        ops, V = saved_direct(column, U_, connector)
        rec["direct"] += ops
        return ops, V

    def rec_inverse(column, U_, connector):
        ops, V = saved_inverse(column, U_, connector)
        rec["inverse"] += ops
        return ops, V
    num_angle = numpy.angle
    try:
        cl._get_angles = fake_angles
        cl._apply_direct_beamsplitters, cl._apply_inverse_beamsplitters = rec_direct, rec_inverse
        if env.mode == "sym":
            xa.xnp.angle = fake_angle
        else:
            numpy.angle = lambda z: fake_angle(z)
        dec = cl.clements(U, conn)
    finally:
        cl._get_angles = saved_get
        cl._apply_direct_beamsplitters, cl._apply_inverse_beamsplitters = saved_direct, saved_inverse
        if env.mode == "sym":
            del xa.xnp.angle
        else:
            numpy.angle = num_angle
    V = cl.inverse_clements(dec, conn, complex)
    np = env.np
    # oracle: U' = (T_n ... T_1) U (S_1^+ ... S_m^+)  =>  U = T_1^+ ... T_n^+ D S_m ... S_1 with D the diagonal phases
    D = _arr(env, [[np.exp(1j * deltas[i]) if i == j else 0 for j in range(d)] for i in range(d)])
    # the direct operations were applied as T_k @ U in order k = 1..n, so U' = T_n...T_1 U ...; undoing needs T_1^+ ... T_n^+ (outermost T_1^+)
    W = D
    for op in reversed(rec["direct"]):
        W = cm.dagger(env, _my_bs(env, op.params[0], op.params[1], op.modes, d)) @ W
    for op in reversed(rec["inverse"]):
        W = W @ _my_bs(env, op.params[0], op.params[1], op.modes, d)
    env.equal("inverse_clements(clements) == recorded factors", V, W)


def _symbolic_decomposition(env, d, zeros=0):
    """the mesh layout the library itself uses (clements of the identity) filled with free symbolic angles"""
    from piquasso._simulators.connectors import NumpyConnector
    dec = cl.clements(numpy.identity(d, dtype=complex), NumpyConnector())
    for k, bs in enumerate(dec.beamsplitters):
        # clements() emits the Python float 0.0 for a mixing angle it did not need (diagonal / block-diagonal inputs): the
        # bit mask `zeros` says which mesh elements carry such a literal zero, the others are free symbols
        zero = bool((zeros >> k) & 1)
        bs.params = (0.0 if zero else env.param("th%d" % k), env.param("ph%d" % k))
    for k, ps in enumerate(dec.phaseshifters):
        ps.phi = env.param("phi%d" % k)
    return dec


def h_instruction_list(env, d, zeros=0):
    """for ARBITRARY angles (incl. the theta == 0 / phi == 0 paths): the Phaseshifter / Beamsplitter list produced by
    instructions_from_decomposition, composed through the real gate blocks, is the matrix inverse_clements reconstructs."""
    conn = cm.connector(env)
    cfg = cm.config(env)
    dec = _symbolic_decomposition(env, d, zeros=zeros)
    env.functions += [core.fn_ref(cl.instructions_from_decomposition), core.fn_ref(cl.inverse_clements)]
    with cm.patched_np(env, cl):
        ins = cl.instructions_from_decomposition(dec)
        want = cl.inverse_clements(dec, conn, complex)
    W = env.np.identity(d) if env.mode == "num" else xa.xnp.identity(d)
    for inst in ins:
        blk = inst._get_passive_block(conn, cfg)
        W = cm.embed(env, blk, inst.modes, d) @ W
    env.equal("instruction list == inverse_clements", W, want)
    env.holds("one phaseshifter + one beamsplitter per mesh element, then the final phases", len(ins) == 2 * len(dec.beamsplitters) + len(dec.phaseshifters))


def h_weights(env, d):
    """weight-vector round trip: get_decomposition_from_weights(get_weights_from_decomposition(dec)) carries the SAME angle
    values on the same modes, for arbitrary real angles (any magnitude, e.g. theta = pi/2 exactly or beyond)."""
    conn = cm.connector(env)
    dec = _symbolic_decomposition(env, d)
    if env.mode == "sym":
        for ps in dec.phaseshifters:
            ps.phi = xa.xarr(numpy.array(ps.phi, dtype=object))        # the library reads .dtype of the first phase
    else:
        for ps in dec.phaseshifters:
            ps.phi = numpy.float64(ps.phi)
    env.functions += [core.fn_ref(cl.get_weights_from_decomposition), core.fn_ref(cl.get_decomposition_from_weights)]
    with cm.patched_np(env, cl):
        w = cl.get_weights_from_decomposition(dec, d, conn)
        back = cl.get_decomposition_from_weights(w, d, conn)
    env.holds("d^2 weights", len(w) == d * d)
    for k, (a, b) in enumerate(zip(dec.beamsplitters, back.beamsplitters)):
        env.holds("beamsplitter %d on the same modes" % k, tuple(a.modes) == tuple(b.modes))
        env.equal("theta%d" % k, b.params[0], a.params[0])
        env.equal("phi%d" % k, b.params[1], a.params[1])
    for k, (a, b) in enumerate(zip(dec.phaseshifters, back.phaseshifters)):
        env.holds("phaseshifter %d on the same mode" % k, a.mode == b.mode)
        env.equal("final phase %d" % k, b.phi, a.phi)


HARNESSES = {"instruction_list": h_instruction_list, "weights": h_weights, "clements_roundtrip": h_clements_roundtrip, "commute_angles": h_commute_angles, "nulling": h_nulling, "bookkeeping": h_bookkeeping}


def instances(tier):
    out = [("commute_angles", {})]
    for d in (2, 3) if tier == "quick" else (2, 3, 4):
        out.append(("bookkeeping", {"d": d}))
        for z in ((0, 1) if d == 2 else (0, 1, 2, 4, 7) if d == 3 else (0, 5, 63)):
            out.append(("instruction_list", {"d": d, "zeros": z}))
        out.append(("weights", {"d": d}))
        for column in range(d - 1):
            out.append(("nulling", {"d": d, "column": column}))
    if tier == "thorough":
        for via in ("inverse", "weights", "instructions"):
            out.append(("clements_roundtrip", {"d": 2, "via": via}))
    return out


EXPLANATION = (
    "Bounded symbolic verification of the Clements decomposition: clements() is executed on EVERY 2x2 unitary (four symbolic angles; thorough: a 3x3 family) with "
    "arctan / angle returning angle objects that carry their exact cosine and sine, every branch of the isclose(.,0) tests is explored, and z3 decides that the inverse, "
    "the weight-vector round trip and the product of the emitted Beamsplitter / Phaseshifter gate blocks reproduce the input; the phase-commutation rule "
    "BS^-1 D = D' BS' holds for all angles."
)


def run(rep, tier, seed, opts):
    inst = instances(tier)
    if opts.get("only"):
        inst = [i for i in inst if opts["only"] in i[0] or opts["only"] in str(i[1])]
    rep.bounds = {"clements": "all of U(2); thorough: a six-angle family of U(3)",
                  "outside": "takagi, williamson, euler (LAPACK svd / schur / sqrtm / polar / logm have no source-level semantics here), the graph embedding (root finder), dimensions > 3"}
    o = {"timeout_s": 120 if tier == "quick" else 900, "instance_timeout_s": 1200 if tier == "quick" else 6000, "seed": seed, "validation_points": 1, "path_budget": 64}
    for r in core.run_instances(__name__, inst, o, jobs=opts.get("jobs")):
        rep.add_instance_result(__name__, r)
    return rep.finish(level="other", explanation=EXPLANATION)
