"""C02 - measurement samples follow the Born rule (E-XA: samplers as functions of their random draws).

A sampler is a deterministic function of its draws.  The RNG primitives are stubs with their
documented contract; the explorer enumerates every sequence of draw outcomes, each path carries the
exact symbolic probability (product of the weights of its draws), and the obligation decided by the
solver is  sum_{paths with output s} weight == P_exact(s)  for all symbolic probability tables /
matrices.  Continuous outcomes: the (mean, cov) handed to rng.multivariate_normal are captured."""
import itertools
import math
import time
import random as pyrandom

import numpy
import z3

import piquasso as pq
from piquasso import _utils as putils
from piquasso._simulators.gaussian import simulation_steps as gs
from piquasso._simulators.gaussian import state as gstate
from piquasso._simulators.gaussian.state import GaussianState
from piquasso._simulators.passive import sampling as psamp
from piquasso.fermionic.gaussian import simulation_steps as fgs

from .. import xa, core
from . import common as cm
from . import fockcommon as fc


# ----------------------------------------------------------------------------- path enumeration with weights
class Paths:
    """enumerates every sequence of draw outcomes of a sampler (DFS by re-execution)."""

    def __init__(self, env):
        self.env = env
        self.todo = [[]]
        self.sched = []
        self.pos = 0
        self.weights = []

    def start(self):
        self.sched = self.todo.pop()
        self.pos = 0
        self.weights = []

    def choose(self, n):
        i = self.pos
        self.pos += 1
        if i < len(self.sched):
            return self.sched[i]
        self.sched.append(0)
        for k in range(1, n):
            self.todo.append(self.sched[:i] + [k])
        return 0

    def weight(self):
        w = 1
        for x in self.weights:
            w = w * x
        return w


class UDraw:
    """a uniform draw in [0, 1): `u < x` is true with probability x (0 <= x <= 1 is the sampler's duty)"""

    def __init__(self, paths):
        self.p = paths

    def __lt__(self, x):
        c = self.p.choose(2)
        self.p.weights.append(x if c == 0 else 1 - x)
        return c == 0

    def __gt__(self, x):
        c = self.p.choose(2)
        self.p.weights.append(1 - x if c == 0 else x)
        return c == 0

    __le__ = __lt__
    __ge__ = __gt__


class RngStub:
    def __init__(self, paths):
        self.p = paths

    def uniform(self, *a, **k):
        return UDraw(self.p)

    random = uniform

    def choice(self, a, p=None, size=None):
        vals = list(range(int(a))) if isinstance(a, (int, numpy.integer)) else list(a)
        n = len(vals)
        c = self.p.choose(n)
        self.p.weights.append(p[c] if p is not None else (xa.SC(xa.RV(1) / n) if self.p.env.mode == "sym" else 1.0 / n))
        return vals[c]


def distribution(env, run_once):
    """{output: total probability} over all draw sequences; run_once(rng) -> hashable output"""
    paths = Paths(env)
    rng = RngStub(paths)
    dist = {}
    n = 0
    while paths.todo:
        paths.start()
        out = run_once(rng)
        n += 1
        w = paths.weight()
        dist[out] = dist[out] + w if out in dist else w
        if n > 20000:
            raise xa.HarnessError("path budget exceeded")
    env.n_paths = getattr(env, "n_paths", 0) + n
    return dist


# ----------------------------------------------------------------------------- harnesses
def _marginal_table(env, M, name="p"):
    """consistent symbolic table of 'pattern on the first L detectors' probabilities: free variables for
    patterns ending in 0, the others by subtraction; all strictly positive."""
    P = {}
    for L in range(1, M + 1):
        for occ in itertools.product((0, 1), repeat=L):
            if occ[-1] == 0:
                P[occ] = env.real("%s_%s" % (name, "".join(map(str, occ))), 0, 1)

    def marg(occ):
        if occ == ():
            return 1
        if occ[-1] == 0:
            return P[occ]
        return marg(occ[:-1]) - P[occ[:-1] + (0,)]
    for L in range(1, M + 1):
        for occ in itertools.product((0, 1), repeat=L):
            m = marg(occ)
            if env.mode == "sym":
                env.assume("P%s>0" % (occ,), xa.SC.lift(m) > 0)
            else:
                env.num_assumptions.append(("P%s>0" % (occ,), m > 0))
    return marg


def _sample_table(rng, M, name="p", **kw):
    """a valid table from a random joint distribution"""
    w = {occ: rng.randint(1, 9) for occ in itertools.product((0, 1), repeat=M)}
    tot = sum(w.values())
    vals = {}
    for L in range(1, M + 1):
        for occ in itertools.product((0, 1), repeat=L):
            if occ[-1] == 0:
                vals["%s_%s" % (name, "".join(map(str, occ)))] = sum(v for k, v in w.items() if k[:L] == occ) / tot
    return vals


def h_threshold_chain(env, M):
    """Gaussian threshold sampler (torontonian chain rule): for ANY consistent table of click-pattern
    probabilities the law of the returned sample is the joint table."""
    marg = _marginal_table(env, M)

    class Cfg:
        hbar = 2.0
        cache_size = 64

    class Red:
        xpxp_covariance_matrix = 1.0
        xpxp_mean_vector = 1.0

    class St:
        _config = Cfg()
        def _is_displaced(self):
            return False
        def reduced(self, m):
            return Red()

    class Ins:
        modes = tuple(range(M))
    env.functions.append(core.fn_ref(gs._generate_threshold_samples_using_torontonian))
    env.stubs += ["rng.uniform() -> a draw u with P(u < x) = x", "calculate_click_probability_nondisplaced -> the symbolic consistent table (the kernel itself is C04)"]
    saved = gs.calculate_click_probability_nondisplaced
    gs.calculate_click_probability_nondisplaced = lambda cov, occ: marg(tuple(occ))
    try:
        def once(rng):
            Cfg.rng = rng
            return tuple(gs._generate_threshold_samples_using_torontonian(St(), Ins(), 1)[0])
        dist = distribution(env, once)
    finally:
        gs.calculate_click_probability_nondisplaced = saved
    for occ in itertools.product((0, 1), repeat=M):
        env.equal("law%s" % (occ,), dist.get(occ, 0), marg(occ))


h_threshold_chain.sampler = lambda rng, M: _sample_table(rng, M)


def h_fermionic_chain(env, M, order=None):
    """fermionic Gaussian particle-number sampler (mode-by-mode chain rule with clipping); `order` is the order in which the
    user listed the modes - the reduced-state stub answers for the modes it is ASKED about, so a request that pairs
    occupations with the wrong modes gets the probability of that wrong assignment."""
    marg = _marginal_table(env, M)
    order = tuple(order) if order is not None else tuple(range(M))

    class Cfg:
        cache_size = 64

    class Red:
        def __init__(self, modes):
            self.modes = modes
        def get_particle_detection_probability(self, occ):
            asked = dict(zip(self.modes, (int(x) for x in occ)))
            if set(asked) != set(order[:len(asked)]) or len(asked) != len(self.modes):
                raise xa.HarnessError("reduced state requested on %r: not a prefix of the measured modes %r" % (self.modes, order))
            return marg(tuple(asked[m] for m in order[:len(asked)]))

    class Conn:
        fallback_np = numpy

    class St:
        _config = Cfg()
        _connector = Conn()
        def reduced(self, m):
            return Red(m)

    class Ins:
        modes = order
    env.functions.append(core.fn_ref(fgs._generate_particle_number_samples))
    env.stubs += ["rng.uniform() -> a draw u with P(u < x) = x", "reduced-state detection probability -> symbolic consistent table; float() of it is the identity"]
    g = fgs._generate_particle_number_samples.__globals__
    had = "float" in g
    old = g.get("float")
    g["float"] = lambda x: x          # the code wraps the probability in float(); symbolic values pass through
    try:
        def once(rng):
            Cfg.rng = rng
            return tuple(fgs._generate_particle_number_samples(St(), Ins(), 1)[0])
        dist = distribution(env, once)
    finally:
        if had:
            g["float"] = old
        else:
            del g["float"]
    for occ in itertools.product((0, 1), repeat=M):
        env.equal("law%s" % (occ,), dist.get(occ, 0), marg(occ))


h_fermionic_chain.sampler = lambda rng, M, order=None: _sample_table(rng, M)


def _unitary2(env):
    np = env.np
    th, ph = env.param("th"), env.param("ph")
    t, r = np.cos(th), np.exp(1j * ph) * np.sin(th)
    rows = [[t, -np.conj(r)], [r, t]]
    return xa.xarr(numpy.array(rows, dtype=object)) if env.mode == "sym" else numpy.array(rows, dtype=complex)


def _laplace_contract(matrix, rows, cols):
    """contract of permanent_laplace: for every column j (with multiplicity), the permanent with that
    column's multiplicity reduced by one"""
    rows = [int(x) for x in rows]
    cols = [int(x) for x in cols]
    out = []
    for j in range(len(cols)):
        c2 = list(cols)
        c2[j] -= 1
        r_, c_ = fc.repeat_index(rows), fc.repeat_index(c2)
        M = numpy.asarray(matrix, dtype=object)
        out.append(fc.perm(M[numpy.ix_(r_, c_)]) if r_ else 1)
    return out


def h_clifford_clifford(env, inp):
    """Clifford-Clifford chain sampler of the passive simulator on a 2-mode unitary (all angles symbolic):
    the law of the sample is |perm|^2/(in! out!)."""
    inp = tuple(inp)
    d, n = len(inp), sum(inp)
    U = _unitary2(env)
    env.functions += [core.fn_ref(psamp._generate_sample), core.fn_ref(psamp._calculate_pmf), core.fn_ref(psamp._grow_current_input), core.fn_ref(psamp._sample_from_pmf)]
    env.stubs += ["rng.choice(k) -> uniform index, rng.choice(a, p=w) -> index i with probability w[i]", "permanent_laplace -> its contract (sub-permanents with one column multiplicity removed; conformance is C04)"]
    from piquasso._math.indices import to_first_quantized
    fq = to_first_quantized(numpy.array(inp))
    with cm.patched_np(env, psamp._calculate_pmf):
        def once(rng):
            s = psamp._generate_sample(d, n, _laplace_contract, U, fq, rng, reject_condition=lambda: False)
            return tuple(int(x) for x in s)
        dist = distribution(env, once)
    for out in fc.sector(d, n):
        el = fc.fock_element(env, U, out, inp)
        env.equal("law%s" % (out,), dist.get(out, 0), el * env.np.conj(el))


def h_categorical(env, k, shots):
    """sample_from_probability_map: counts over `shots` draws from random.choices with symbolic weights -
    each outcome's expected frequency is its normalised weight and frequencies are k/shots fractions."""
    ws = [env.real("w%d" % i, 0, 4) for i in range(k)]
    if env.mode == "sym":
        for i, w in enumerate(ws):
            env.assume("w%d>0" % i, w > 0)
    else:
        env.num_assumptions.append(("w>0", all(w > 0 for w in ws)))
    tot = sum(ws[1:], ws[0])
    keys = [(i,) for i in range(k)]
    env.functions.append(core.fn_ref(putils.sample_from_probability_map))
    env.stubs.append("random.choices(population, weights, k) -> k independent draws, index i with probability w_i / sum(w)")
    saved = putils.random

    def once(rng):
        class R:
            @staticmethod
            def choices(population, weights, k):
                return [rng.choice(population_idx(population), p=[w / tot for w in weights]) for _ in range(k)]
        def population_idx(pop):
            return list(pop)
        putils.random = R
        fm = putils.sample_from_probability_map(dict(zip(keys, ws)), shots)
        return tuple(sorted((key, fr.numerator * (shots // fr.denominator)) for key, fr in fm.items()))
    try:
        dist = distribution(env, once)
    finally:
        putils.random = saved
    # expected count of each outcome == shots * w_i / sum(w); total probability 1
    total = 0
    for i in range(k):
        exp = 0
        for out, w in dist.items():
            cnt = dict(out).get((i,), 0)
            exp = exp + cnt * w
        env.equal("E[count of outcome %d]" % i, exp, shots * ws[i] / tot)
    for out, w in dist.items():
        total = total + w
    env.equal("total probability", total, 1)
    ok = all(sum(c for _, c in out) == shots and all(c >= 1 for _, c in out) for out in dist)
    env.holds("every frequency map has positive integer counts summing to shots", ok)


def h_generaldyne_parameters(env, d, modes, kind):
    """continuous outcomes: the mean and covariance handed to rng.multivariate_normal are the quantum mean
    and (sigma + sigma_m)/2 in the simulator's own sigma convention (sigma = 2 x covariance); one entry per
    measured quadrature, in program order."""
    modes = tuple(modes)
    conn = cm.connector(env)
    hbar = env.pos("hbar")
    cfg = cm.config(env, hbar=hbar, validate=False)
    st = cm.generic_gaussian_state(env, d, cfg, conn=conn)
    cap = {}

    class R:
        def multivariate_normal(self, mean, cov, size, tol=None):
            cap["mean"], cap["cov"] = mean, cov
            return [env.np.zeros(len(mean))] if False else numpy.zeros((1, len(mean)))
    cfg.rng = R()
    st._config.rng = R()
    s_ = env.pos("s")
    det = env._arr([[s_, 0], [0, 1 / s_]]) if kind == "squeezed" else env._arr([[1, 0], [0, 1]])
    env.functions += [core.fn_ref(gs._get_generaldyne_samples)]
    env.stubs.append("rng.multivariate_normal -> captures (mean, cov): a normal law is determined by them")
    with cm.patched_np(env, gs, gstate):
        mu = st.xpxp_mean_vector
        sig = st.xpxp_covariance_matrix
        gs._get_generaldyne_samples(st, modes, 1, det)
    idx = [j for m in modes for j in (2 * m, 2 * m + 1)]
    k = len(modes)
    full = env.np.zeros((2 * k, 2 * k)) if env.mode == "num" else xa.xnp.zeros((2 * k, 2 * k))
    for i in range(k):
        full[2 * i:2 * i + 2, 2 * i:2 * i + 2] = det * hbar
    env.equal("mean == quantum mean of the measured quadratures", cap["mean"], mu[idx])
    env.equal("cov == (sigma + sigma_m)/2", cap["cov"], (sig[numpy.ix_(idx, idx)] + full) / 2)
    env.holds("one entry per measured quadrature", len(cap["mean"]) == 2 * k)


h_generaldyne_parameters.sampler = lambda rng, d, modes, kind: cm.sample_physical_state(rng, d, "s")

HARNESSES = {"threshold_chain": h_threshold_chain, "fermionic_chain": h_fermionic_chain, "clifford_clifford": h_clifford_clifford,
             "categorical": h_categorical, "generaldyne_parameters": h_generaldyne_parameters}


def instances(tier):
    out = []
    for M in (1, 2, 3) if tier == "quick" else (1, 2, 3, 4):
        out.append(("threshold_chain", {"M": M}))
        out.append(("fermionic_chain", {"M": M}))
    out += [("fermionic_chain", {"M": 2, "order": [1, 0]}), ("fermionic_chain", {"M": 3, "order": [2, 0, 1]})]
    for inp in [(1, 0), (1, 1), (2, 0)] + ([(2, 1), (0, 2), (3, 0)] if tier == "thorough" else []):
        out.append(("clifford_clifford", {"inp": list(inp)}))
    for k, shots in [(2, 1), (2, 2), (3, 2)] + ([(2, 3), (3, 3)] if tier == "thorough" else []):
        out.append(("categorical", {"k": k, "shots": shots}))
    for d, modes, kind in [(1, (0,), "heterodyne"), (2, (1,), "squeezed"), (2, (1, 0), "heterodyne")]:
        out.append(("generaldyne_parameters", {"d": d, "modes": list(modes), "kind": kind}))
    return out


EXPLANATION = (
    "Samplers as deterministic functions of their random draws: the RNG primitives are stubs with their documented contract, the explorer enumerates every "
    "sequence of draw outcomes of the REAL sampler code and each path carries its exact symbolic probability; z3 decides that the summed path probability of every "
    "output equals the exact outcome probability - for all consistent probability tables (threshold and fermionic chain-rule samplers), all 2-mode unitaries "
    "(Clifford-Clifford permanent sampler), all positive weights (categorical sampling). For Gaussian general-dyne measurements the mean and covariance handed to "
    "the multivariate normal generator are compared with the quantum mean and (sigma+sigma_m)/2."
)


def run(rep, tier, seed, opts):
    inst = instances(tier)
    if opts.get("only"):
        inst = [i for i in inst if opts["only"] in i[0] or opts["only"] in str(i[1])]
    rep.bounds = {"chain samplers": "<= 3 (4) measured modes, arbitrary consistent tables", "clifford-clifford": "2 modes, n <= 2 (3) photons, all unitaries", "categorical": "<= 3 outcomes, <= 2 (3) shots",
                  "outside": "loop-hafnian heterodyne unravelling of Gaussian boson sampling, inverse-CDF homodyne sampler in Fock space (continuous integrals), post-selected / lossy / partially distinguishable "
                             "sampling paths, independence of successive shots, float rounding of weights"}
    o = {"timeout_s": 90 if tier == "quick" else 400, "instance_timeout_s": 900 if tier == "quick" else 3000, "seed": seed, "validation_points": 1}
    for r in core.run_instances(__name__, inst, o, jobs=opts.get("jobs")):
        rep.add_instance_result(__name__, r)
    return rep.finish(level="other", explanation=EXPLANATION)
