"""C04 - matrix-function kernels equal their definitions - a SLIVER only (E-XA): the power-trace stage of the Python hafnian
(La Budde characteristic polynomial of a Hessenberg matrix + Newton identities) and the Householder reduction feeding it.
The C++ kernels and the subset-enumeration drivers are outside (see MANIFEST note)."""
import numpy

from piquasso._math.hafnian import labudde as LB, powtrace as PT, hessenberg as HB

from .. import xa, core
from . import common as cm


def _trace_powers(env, H, kmax):
    n = H.shape[0]
    P = H
    out = []
    for k in range(1, kmax + 1):
        t = 0
        for i in range(n):
            t = t + P[i, i]
        out.append(t)
        P = P @ H
    return out


def h_powtrace(env, dim, pow_max):
    """for EVERY upper-Hessenberg complex matrix H of the given size: the traces returned by _powtrace_from_charpoly(labudde(H))
    are tr(H^k), k = 1..pow_max (pow_max > dim exercises the recurrence branch of Appendix B)."""
    H = env.cplx_mat("h", dim)
    for i in range(dim):
        for j in range(dim):
            if i > j + 1:
                H[i, j] = 0 if env.mode == "num" else xa.SC.lift(0)
    lab, ptr = LB.labudde.py_func, PT._powtrace_from_charpoly.py_func
    env.functions += [core.fn_ref(LB.labudde), core.fn_ref(PT._powtrace_from_charpoly)]
    with cm.patched_np(env, LB, PT):
        coeffs = lab(H.copy())
        traces = ptr(coeffs, pow_max)
    want = _trace_powers(env, H, pow_max)
    for k in range(pow_max):
        env.equal("tr(H^%d)" % (k + 1), traces[k], want[k])


def h_hessenberg(env, dim, pow_max):
    """for a generic complex matrix A (Householder branch with non-vanishing column norms): transform_matrix_to_hessenberg
    leaves an upper-Hessenberg matrix with the same power traces, i.e. calc_power_traces(A) = tr(A^k)."""
    A = env.cplx_mat("a", dim)
    want = _trace_powers(env, A, pow_max)
    fns = [HB._get_reflection_vector, HB._mult_a_bconj, HB._calc_vH_times_A, HB._calc_vov_times_A, HB._apply_householder_rows, HB._apply_householder_cols_req, HB.transform_matrix_to_hessenberg]
    env.functions += [core.fn_ref(f) for f in fns] + [core.fn_ref(PT.calc_power_traces)]
    saved = {f.__name__: getattr(HB, f.__name__) for f in fns}
    try:
        if env.mode == "sym":
            for f in fns:
                setattr(HB, f.__name__, f.py_func)
        with cm.patched_np(env, HB, LB, PT):
            M = A.copy()
            (saved["transform_matrix_to_hessenberg"].py_func if env.mode == "sym" else saved["transform_matrix_to_hessenberg"])(M)
            for i in range(dim):
                for j in range(dim):
                    if i > j + 1:
                        env.equal("below the subdiagonal [%d,%d]" % (i, j), M[i, j], 0)
            coeffs = (LB.labudde.py_func if env.mode == "sym" else LB.labudde)(M.copy())
            traces = (PT._powtrace_from_charpoly.py_func if env.mode == "sym" else PT._powtrace_from_charpoly)(coeffs, pow_max)
    finally:
        for k, v in saved.items():
            setattr(HB, k, v)
    for k in range(pow_max):
        env.equal("tr(A^%d) after reduction" % (k + 1), traces[k], want[k])


HARNESSES = {"powtrace": h_powtrace, "hessenberg": h_hessenberg}


def instances(tier):
    out = [("powtrace", {"dim": d, "pow_max": p}) for d, p in ((2, 2), (2, 5), (3, 3), (3, 7), (4, 4), (4, 6))]
    if tier == "thorough":
        out += [("powtrace", {"dim": 5, "pow_max": 7}), ("powtrace", {"dim": 6, "pow_max": 6})]
    if tier == "thorough":
        out += [("hessenberg", {"dim": 3, "pow_max": 3})]      # sub-diagonal zeros are decided; the trace obligations (nested radicals) time out and are reported inconclusive
    return out


EXPLANATION = (
    "A sliver of C04: the power-trace stage of the Python (numba) hafnian executed from its source on symbolic matrices. For EVERY upper-Hessenberg complex matrix "
    "up to 4x4 (6x6 thorough) z3 decides that La Budde's characteristic-polynomial coefficients fed through the Newton-identity routine give tr(H^k) for all k up to "
    "pow_max, including pow_max > dim (Appendix-B recurrence). The Householder reduction in front of it is attempted for a generic 3x3 matrix."
)


def run(rep, tier, seed, opts):
    inst = instances(tier)
    if opts.get("only"):
        inst = [i for i in inst if opts["only"] in i[0] or opts["only"] in str(i[1])]
    rep.bounds = {"Hessenberg dim": "2..4 (6 thorough)", "powers": "up to 7",
                  "outside": "all C++ kernels (permanent, permanent_laplace, torontonian, loop torontonian, pfaffian, jax_perm): no LLVM-IR engine was built and the extensions cannot be rebuilt here; "
                             "the subset enumeration / repeated-edge compression drivers of plain_hafnian.py and loop_hafnian.py, loop corrections, float32 overloads, strided inputs"}
    o = {"timeout_s": 60 if tier == "quick" else 300, "instance_timeout_s": 900, "seed": seed, "validation_points": 2}
    for r in core.run_instances(__name__, inst, o, jobs=opts.get("jobs")):
        rep.add_instance_result(__name__, r)
    return rep.finish(level="other", explanation=EXPLANATION)
