"""C04 - matrix-function kernels equal their definitions - a SLIVER only (E-XA): the power-trace stage of the Python hafnian
(La Budde characteristic polynomial of a Hessenberg matrix + Newton identities) and the Householder reduction feeding it.
The C++ kernels and the subset-enumeration drivers are outside (see MANIFEST note)."""
import numpy

from piquasso._math.hafnian import labudde as LB, powtrace as PT, hessenberg as HB

import z3

from .. import xa, core, si, cx
from . import common as cm
from . import cxcommon as cc


def _trace_powers(env, H, kmax):
    n = H.shape[0]
    P = H
    out = []
    for k in range(1, kmax + 1):
        t = 0
        for i in range(n):
            t = t + P[i, i]
        out.append(t)
        P = P @ H
    return out


def h_powtrace(env, dim, pow_max):
    """for EVERY upper-Hessenberg complex matrix H of the given size: the traces returned by _powtrace_from_charpoly(labudde(H))
    are tr(H^k), k = 1..pow_max (pow_max > dim exercises the recurrence branch of Appendix B)."""
    H = env.cplx_mat("h", dim)
    for i in range(dim):
        for j in range(dim):
            if i > j + 1:
                H[i, j] = 0 if env.mode == "num" else xa.SC.lift(0)
    lab, ptr = LB.labudde.py_func, PT._powtrace_from_charpoly.py_func
    env.functions += [core.fn_ref(LB.labudde), core.fn_ref(PT._powtrace_from_charpoly)]
    with cm.patched_np(env, LB, PT):
        coeffs = lab(H.copy())
        traces = ptr(coeffs, pow_max)
    want = _trace_powers(env, H, pow_max)
    for k in range(pow_max):
        env.equal("tr(H^%d)" % (k + 1), traces[k], want[k])


def h_hessenberg(env, dim, pow_max):
    """for a generic complex matrix A (Householder branch with non-vanishing column norms): transform_matrix_to_hessenberg
    leaves an upper-Hessenberg matrix with the same power traces, i.e. calc_power_traces(A) = tr(A^k)."""
    A = env.cplx_mat("a", dim)
    want = _trace_powers(env, A, pow_max)
    fns = [HB._get_reflection_vector, HB._mult_a_bconj, HB._calc_vH_times_A, HB._calc_vov_times_A, HB._apply_householder_rows, HB._apply_householder_cols_req, HB.transform_matrix_to_hessenberg]
    env.functions += [core.fn_ref(f) for f in fns] + [core.fn_ref(PT.calc_power_traces)]
    saved = {f.__name__: getattr(HB, f.__name__) for f in fns}
    try:
        if env.mode == "sym":
            for f in fns:
                setattr(HB, f.__name__, f.py_func)
        with cm.patched_np(env, HB, LB, PT):
            M = A.copy()
            (saved["transform_matrix_to_hessenberg"].py_func if env.mode == "sym" else saved["transform_matrix_to_hessenberg"])(M)
            for i in range(dim):
                for j in range(dim):
                    if i > j + 1:
                        env.equal("below the subdiagonal [%d,%d]" % (i, j), M[i, j], 0)
            coeffs = (LB.labudde.py_func if env.mode == "sym" else LB.labudde)(M.copy())
            traces = (PT._powtrace_from_charpoly.py_func if env.mode == "sym" else PT._powtrace_from_charpoly)(coeffs, pow_max)
    finally:
        for k, v in saved.items():
            setattr(HB, k, v)
    for k in range(pow_max):
        env.equal("tr(A^%d) after reduction" % (k + 1), traces[k], want[k])


def h_cpp_permanent(env, rows, cols, kernel="permanent"):
    """src/permanent.cpp permanent_cpp<double> interpreted from clang's AST on a GENERIC complex matrix, for the given row /
    column multiplicities and EVERY thread count hardware_concurrency() >= 1 may return (the solver enumerates the classes
    4*hc < number of Gray-code indices, one path each, and hc beyond that as one path): the returned value equals the sum
    over permutations of the matrix with repeated rows / columns, and no undefined behaviour was met on the way."""
    d = len(rows)
    A = env.cplx_mat("a", d)
    prog = cc.program(kernel)
    env.functions += cc.fn_refs(prog, "%s<double>, n_aryGrayCodeCounter, binomialCoeff (clang-14 AST)" % ("permanent_cpp" if kernel == "permanent" else "permanent_laplace_cpp"))
    if kernel == "laplace":
        # one sub-permanent per column: the permanent with that column's multiplicity reduced by one (rows sum to sum(cols) - 1)
        want = [cc.permanent_definition(A, rows, [c - (1 if j == i else 0) for j, c in enumerate(cols)]) if cols[i] > 0 else 0 for i in range(d)]
        if env.mode == "sym":
            hc = si.SI(env.ivar("n_threads", 1, 1024), 32)
            got, ub = cc.interp_laplace(env, A, rows, cols, hc, prog)
        else:
            hc = env.ivar("n_threads", 1, 1024)
            got, ub = cc.native_permanent(A, rows, cols, hc, "L")
            got = got if got is not None else [float("nan")] * d
        for i in range(d):
            if cols[i] > 0:
                env.equal("Laplace sub-permanent %d == sum over permutations" % i, got[i], want[i])
        env.holds("no undefined behaviour in permanent_laplace_cpp", not ub)
        return
    env.stubs += ["Matrix/Vector handles of src/matrix.hpp, std::vector, std::complex arithmetic, ldexp, uninitialized_copy_n = native models",
                  "std::thread::hardware_concurrency() = symbolic integer 1..1024", "destructors / delete not modelled"]
    want = cc.permanent_definition(A, rows, cols)
    if env.mode == "sym":
        hc = si.SI(env.ivar("n_threads", 1, 1024), 32)
        got, ub = cc.interp_permanent(env, A, rows, cols, hc, prog)
        env.equal("permanent_cpp == sum over permutations", got, want)
        env.holds("no undefined behaviour in permanent_cpp", not ub)
        if ub:
            env.stubs.append("UB: " + ub[0][0])
    else:
        hc = env.ivar("n_threads", 1, 1024)
        got, ub = cc.native_permanent(A, rows, cols, hc)
        env.equal("permanent_cpp == sum over permutations", got if got is not None else float("nan"), want)
        env.holds("no undefined behaviour in permanent_cpp", not ub)


def _perm_weight_sites(prog):
    """the two statements of permanent_cpp<double> that maintain the binomial weight, with the declarations they mention"""
    fn = prog.find(None, "permanent_cpp", 3, pick="complex<double>")
    def lhs_is(n, name):
        l = n.get("inner", [{}])[0]
        return l.get("kind") == "DeclRefExpr" and l.get("referencedDecl", {}).get("name") == name
    step = cc.find_nodes(fn, lambda n: n.get("kind") == "BinaryOperator" and n.get("opcode") == "=" and lhs_is(n, "binomial_coeff"))
    init = cc.find_nodes(fn, lambda n: n.get("kind") == "CompoundAssignOperator" and n.get("opcode") == "*=" and lhs_is(n, "binomial_coeff"))
    decl = cc.find_nodes(fn, lambda n: n.get("kind") == "VarDecl" and n.get("name") == "binomial_coeff")
    use = cc.find_nodes(fn, lambda n: n.get("kind") in ("CXXStaticCastExpr", "ImplicitCastExpr") and n.get("castKind") == "IntegralToFloating"
                        and cc.find_nodes(n, lambda m: m.get("kind") == "DeclRefExpr" and m.get("referencedDecl", {}).get("name") == "binomial_coeff"))
    if len(step) != 1 or len(init) != 1 or len(decl) != 1:
        raise xa.HarnessError("permanent_cpp: expected one declaration, one initial product and one Gray-step update of binomial_coeff, found %d/%d/%d"
                              % (len(decl), len(init), len(step)))
    return fn, decl[0], init[0], step[0]


def _decl_ids(node):
    return {n["referencedDecl"]["name"]: n["referencedDecl"] for n in cc.find_nodes(node, lambda m: m.get("kind") == "DeclRefExpr" and m["referencedDecl"]["kind"] in ("VarDecl", "ParmVarDecl"))}


def h_cpp_weights(env, total):
    """the integer weight of the native permanent for ALL multiplicities up to a total: the Gray-code step statement
    `binomial_coeff = value < prev_value ? ... : ...` of permanent_cpp is executed from its AST on symbolic machine integers,
    from ANY state satisfying the invariant binomial_coeff = C(r1, g1) * C(r2, g2) (two counted rows, r1 + r2 <= total, one digit
    moving by one): no intermediate leaves the declared C++ type (signed overflow is undefined behaviour) and the result is the
    invariant's value for the new Gray code.  num mode: the compiled kernel under UBSan on the all-ones matrix."""
    prog = cc.program()
    env.functions += cc.fn_refs(prog, "permanent_cpp<double>: binomial weight statements (clang-14 AST)")
    r1 = env.ivar("r1", 1, total)
    r2 = env.ivar("r2", 0, total)
    g1 = env.ivar("g1", 0, total)
    g2 = env.ivar("g2", 0, total)
    up = env.ivar("up", 0, 1)
    if env.mode == "num":
        # end-to-end twin: user rows (r1 + 1, r2) so that the counted rows are (r1, r2); per(J) = n!
        import math
        rows = [r1 + 1, r2] if r2 else [r1 + 1]
        n = sum(rows)
        A = numpy.ones((len(rows), len(rows)), dtype=complex)
        ok = r1 + r2 <= total
        env.num_assumptions.append(("r1+r2<=total", ok))
        if not ok:
            return
        got, ub = cc.native_permanent(A, rows, rows, 1)
        env.holds("no signed overflow / weight correct (native run on the all-ones matrix)", (not ub) and got is not None and abs(got - math.factorial(n)) <= 1e-9 * math.factorial(n))
        return
    fn, decl, init, step = _perm_weight_sites(prog)
    ty = cx.INT_TYPES.get(cx._tname(decl))
    if ty is None:
        raise xa.HarnessError("binomial_coeff has non-integer type %s" % cx._tname(decl))
    binom, ax = si.binom_table(total)
    env.axioms += ax
    env.assume("r1+r2<=total", xa.SymBool(r1 + r2 <= total))
    env.assume("0<=g1<=r1", xa.SymBool(z3.And(g1 <= r1)))
    env.assume("0<=g2<=r2", xa.SymBool(z3.And(g2 <= r2)))
    newg = z3.If(up == 1, g1 + 1, g1 - 1)
    env.assume("the moving digit stays in range", xa.SymBool(z3.And(newg >= 0, newg <= r1)))
    B = si.SI(binom(r1, g1) * binom(r2, g2), ty[0])
    ids = _decl_ids(step)
    it = cx.Interp(prog, env)
    frame = {}
    vals = {"binomial_coeff": B, "prev_value": si.SI(g1, 32), "value": si.SI(newg, 32), "row_mult_current": si.SI(r1, 32)}
    for name, rd in ids.items():
        if name not in vals:
            raise xa.HarnessError("Gray-step weight update mentions %s - the harness does not know its meaning" % name)
        frame[rd["id"]] = vals[name]
    it.frames.append(frame)
    it.this.append(None)
    n0 = len(env.records)
    it.ev(step)
    out = frame[ids["binomial_coeff"]["id"]]
    env.holds("weight after the step == C(r1, g1') * C(r2, g2)", si.SI.lift(out) == si.SI(binom(r1, newg) * binom(r2, g2), 64))
    env.holds("no undefined behaviour events", not it.ub_events)


h_cpp_weights.replay_any = True


def h_cpp_reduce_indices(env, modes):
    """src/torontonian_common.cpp calculate_reduce_indices (index bookkeeping of the recursive torontonian / loop torontonian) for
    EVERY increasing list of holes among `modes` modes: the list length and the hole values are solver-chosen integers, every
    comparison with a hole is a solver decision; the result is the complement of the holes and no subscript leaves its vector."""
    prog = cc.program("reduce")
    env.functions += cc.fn_refs(prog, "calculate_reduce_indices (clang-14 AST)")
    k = env.pick_int("k", 0, modes)
    hs = [env.ivar("h%d" % i, 0, modes - 1) for i in range(k)]
    if env.mode == "num":
        ok = all(hs[i] < hs[i + 1] for i in range(k - 1))
        env.num_assumptions.append(("holes increasing", ok))
        if not ok:
            return
        got, ub = cc.native_reduce(hs, modes)
        env.holds("result is the complement of the holes", got == [i for i in range(modes) if i not in hs])
        env.holds("no undefined behaviour in calculate_reduce_indices", not ub)
        return
    for i in range(k - 1):
        env.assume("holes increasing %d" % i, xa.SymBool(hs[i] < hs[i + 1]))
    fn = prog.find(None, "calculate_reduce_indices", 2)
    it = cx.Interp(prog, env)
    res = it.call(fn, [cx.Ref([[si.SI(h, 64) for h in hs]], 0), cx.Ref([modes], 0)])
    res = [int(x) if not isinstance(x, si.SI) else it.conc(x) for x in res]
    cond = []
    for i in range(modes):
        notin = z3.And(*[h != i for h in hs]) if hs else z3.BoolVal(True)
        cond.append(notin if i in res else z3.Not(notin))
    env.holds("result is the complement of the holes", xa.SymBool(z3.And(*cond)) if cond else True)
    env.holds("no undefined behaviour in calculate_reduce_indices", not it.ub_events)


h_cpp_reduce_indices.replay_any = True


def h_cpp_pfaffian(env, n, zeros=()):
    """src/pfaffian.cpp pfaffian_cpp<double> (Parlett-Reid with partial pivoting) interpreted from clang's AST on a GENERIC real
    skew-symmetric n x n matrix (optionally with structural zeros, which steer the pivot search into its rarely taken branches):
    every pivot choice is a solver decision on |a| > |b| (compared as squares), every `element != 0` test forks, and on each
    feasible path the returned value equals the sum over perfect matchings."""
    prog = cc.program("pfaffian")
    env.functions += cc.fn_refs(prog, "pfaffian_cpp<double> (clang-14 AST)")
    env.stubs += ["Matrix handle of src/matrix.hpp = native model", "std::abs on reals: only compared, decided on squares", "reals stand in for doubles"]
    zeros = {tuple(z) for z in zeros}
    M = numpy.empty((n, n), dtype=object)
    for i in range(n):
        M[i, i] = 0
        for j in range(i + 1, n):
            v = 0 if (i, j) in zeros else env.real("a%d%d" % (i, j))
            M[i, j] = v
            M[j, i] = -v if not isinstance(v, int) else 0
    want = cc.pfaffian_definition(M)
    if env.mode == "sym":
        got, ub = cc.interp_pfaffian(env, M.copy())
        env.equal("pfaffian_cpp == sum over perfect matchings", got, want)
        env.holds("no undefined behaviour in pfaffian_cpp", not ub)
    else:
        got, ub = cc.native_pfaffian(numpy.array(M, dtype=float))
        env.equal("pfaffian_cpp == sum over perfect matchings", got if got is not None else float("nan"), want)
        env.holds("no undefined behaviour in pfaffian_cpp", not ub)


HARNESSES = {"powtrace": h_powtrace, "hessenberg": h_hessenberg, "cpp_permanent": h_cpp_permanent, "cpp_weights": h_cpp_weights, "cpp_pfaffian": h_cpp_pfaffian, "cpp_reduce_indices": h_cpp_reduce_indices}


def instances(tier):
    out = [("powtrace", {"dim": d, "pow_max": p}) for d, p in ((2, 2), (2, 5), (3, 3), (3, 7), (4, 4), (4, 6))]
    out += [("cpp_permanent", {"rows": list(r), "cols": list(c)}) for r, c in (((1, 1), (1, 1)), ((2, 1), (1, 2)), ((0, 2), (1, 1)), ((1, 1, 1), (1, 1, 1)), ((2, 0, 1), (1, 1, 1)), ((2, 2), (3, 1)), ((1, 2, 1), (2, 0, 2)), ((3, 2), (4, 1)), ((2, 2, 1), (1, 3, 1)))]
    out += [("cpp_permanent", {"rows": list(r), "cols": list(c), "kernel": "laplace"}) for r, c in (((1, 1), (2, 1)), ((2, 1), (2, 2)), ((1, 0, 1), (1, 1, 1)), ((2, 2), (3, 2)), ((0, 2, 1), (2, 1, 1)))]
    out += [("cpp_weights", {"total": 24}), ("cpp_weights", {"total": 40})]
    out += [("cpp_reduce_indices", {"modes": m}) for m in (1, 2, 3, 4)]
    out += [("cpp_pfaffian", {"n": 2}), ("cpp_pfaffian", {"n": 4}), ("cpp_pfaffian", {"n": 3}),
            ("cpp_pfaffian", {"n": 4, "zeros": [[0, 1], [0, 2], [1, 3], [2, 3]]}),       # anti-diagonal pairing: the only pivot candidate is the last row
            ("cpp_pfaffian", {"n": 4, "zeros": [[0, 1], [0, 2]]}), ("cpp_pfaffian", {"n": 4, "zeros": [[0, 1]]}),
            ("cpp_pfaffian", {"n": 6, "zeros": [[0, 1], [0, 2], [0, 3], [0, 4], [1, 2], [1, 3], [1, 5], [2, 4], [2, 5], [3, 4], [3, 5]]})]   # nested pairing (0,5)(1,4)(2,3)
    if tier == "thorough":
        out += [("cpp_permanent", {"rows": list(r), "cols": list(c)}) for r, c in (((1, 1, 1, 1), (1, 1, 1, 1)), ((2, 1, 0, 2), (1, 1, 2, 1)), ((4, 2, 1), (2, 3, 2)))]
        out += [("cpp_weights", {"total": 48})]
        out += [("cpp_pfaffian", {"n": 6, "zeros": [[0, 1], [0, 2], [0, 3], [1, 2], [2, 4], [3, 5]]}), ("cpp_pfaffian", {"n": 6, "zeros": [[0, 1], [0, 2], [0, 3], [0, 4]]})]
    if tier == "thorough":
        out += [("powtrace", {"dim": 5, "pow_max": 7}), ("powtrace", {"dim": 6, "pow_max": 6})]
    if tier == "thorough":
        out += [("hessenberg", {"dim": 3, "pow_max": 3})]      # sub-diagonal zeros are decided; the trace obligations (nested radicals) time out and are reported inconclusive
    return out


EXPLANATION = (
    "PARTIAL. Native kernels from clang's AST of the current source (E-CX): permanent_cpp<double> and permanent_laplace_cpp<double> on a GENERIC complex matrix for listed multiplicity patterns and every "
    "thread-count class equal the sum over permutations without undefined behaviour; the Gray-step update of the integer binomial weight stays within its C++ type and re-establishes its invariant for ALL "
    "multiplicities of two counted rows up to the stated total; pfaffian_cpp<double> on a generic real skew matrix equals the sum over perfect matchings on every pivoting path. Plus the power-trace stage of the hafnian: the power-trace stage of the Python (numba) hafnian executed from its source on symbolic matrices. For EVERY upper-Hessenberg complex matrix "
    "up to 4x4 (6x6 thorough) z3 decides that La Budde's characteristic-polynomial coefficients fed through the Newton-identity routine give tr(H^k) for all k up to "
    "pow_max, including pow_max > dim (Appendix-B recurrence). The Householder reduction in front of it is attempted for a generic 3x3 matrix."
)


def run(rep, tier, seed, opts):
    inst = instances(tier)
    if opts.get("only"):
        inst = [i for i in inst if opts["only"] in i[0] or opts["only"] in str(i[1])]
    rep.bounds = {"Hessenberg dim": "2..4 (6 thorough)", "powers": "up to 7",
                  "native permanent": "multiplicity patterns with <= 5 photons on <= 3 modes (6 on 4 thorough), thread counts 1..1024; weight invariant for two counted rows with total <= 40 (48)",
                  "pfaffian": "generic real skew matrices n = 2, 3, 4; 4x4 / 6x6 with structural zeros",
                  "outside": "torontonian, loop torontonian, jax_perm, float32 instantiations; the prebuilt extension modules cannot be rebuilt here (claims are about the C++ source); "
                             "the subset enumeration / repeated-edge compression drivers of plain_hafnian.py and loop_hafnian.py, loop corrections, float32 overloads, strided inputs"}
    o = {"timeout_s": 180 if tier == "quick" else 400, "instance_timeout_s": 1200, "seed": seed, "validation_points": 2, "path_budget": 400, "som_blowup": True}
    for r in core.run_instances(__name__, inst, o, jobs=opts.get("jobs")):
        rep.add_instance_result(__name__, r)
    return rep.finish(level="other", explanation=EXPLANATION)
