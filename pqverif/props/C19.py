"""C19 - dual-rail translation preserves qubit-circuit statistics (E-XA) - partial: gate-level
translation (all angles symbolic), the heralded CZ / CX gadgets with the fixed KLM angles, the
condition functions and the sample post-processing.  Qiskit's own parser / transpiler is not involved:
instructions are duck-typed stand-ins (name, params)."""
import itertools
import math

import numpy

import piquasso as pq
from piquasso import dual_rail_encoding as dre

from .. import xa, core
from . import common as cm
from . import fockcommon as fc


class QI:
    """stand-in for a qiskit CircuitInstruction"""
    def __init__(self, name, params=()):
        self.name = name
        self.params = list(params)


def _arr(env, rows):
    return xa.xarr(numpy.array(rows, dtype=object)) if env.mode == "sym" else numpy.array(rows, dtype=complex)


def _mode_unitary(env, instructions, d, let=False):
    """product of the REAL passive blocks of the emitted instructions, embedded on d modes"""
    conn = cm.connector(env)
    cfg = cm.config(env)
    W = env.np.identity(d) if env.mode == "num" else xa.xnp.identity(d)
    for inst in instructions:
        if isinstance(inst, (pq.PostSelectPhotons, pq.ParticleNumberMeasurement)):
            continue
        blk = inst._get_passive_block(conn, cfg)
        env.functions.append(core.fn_ref(type(inst)._get_passive_block))
        W = cm.embed(env, blk, inst.modes, d) @ W
        if let:
            W = env.enclose(W, "W after %s" % type(inst).__name__)
    return W


def qiskit_matrix(env, name, p):
    """the gate definitions of the Qiskit circuit library (written out here: the oracle)"""
    np = env.np
    I = 1j
    r = 1 / np.sqrt(2)
    if name == "h":
        return _arr(env, [[r, r], [r, -r]])
    if name == "x":
        return _arr(env, [[0, 1], [1, 0]])
    if name == "y":
        return _arr(env, [[0, -I], [I, 0]])
    if name == "z":
        return _arr(env, [[1, 0], [0, -1]])
    if name == "rx":
        c, s = np.cos(p[0] / 2), np.sin(p[0] / 2)
        return _arr(env, [[c, -I * s], [-I * s, c]])
    if name == "ry":
        c, s = np.cos(p[0] / 2), np.sin(p[0] / 2)
        return _arr(env, [[c, -s], [s, c]])
    if name == "rz":
        return _arr(env, [[np.exp(-I * p[0] / 2), 0], [0, np.exp(I * p[0] / 2)]])
    if name == "u":
        c, s = np.cos(p[0] / 2), np.sin(p[0] / 2)
        return _arr(env, [[c, -np.exp(I * p[2]) * s], [np.exp(I * p[1]) * s, np.exp(I * (p[1] + p[2])) * c]])
    if name == "p":
        return _arr(env, [[1, 0], [0, np.exp(I * p[0])]])
    raise KeyError(name)


NPARAMS = {"h": 0, "x": 0, "y": 0, "z": 0, "rx": 1, "ry": 1, "rz": 1, "u": 3, "p": 1}


def _proportional(env, name, W, G):
    """W == lambda * G for a unit scalar lambda: cross-multiplied entries agree and W is unitary"""
    n = W.shape[0]
    pairs = [(i, j) for i in range(n) for j in range(n)]
    for (i, j), (k, l) in itertools.combinations(pairs, 2):
        env.equal("%s: W[%d,%d] G[%d,%d] == W[%d,%d] G[%d,%d]" % (name, i, j, k, l, k, l, i, j), W[i, j] * G[k, l], W[k, l] * G[i, j])
    env.equal("%s: W unitary" % name, W @ cm.dagger(env, W), env.np.identity(n))


def h_single_qubit(env, name):
    """the dual-rail image of a single-qubit gate acts on the one-photon amplitudes (a0, a1) as the qubit
    gate up to a global phase, for all angles (through _map_qiskit_instr_to_pq and the real gate blocks)."""
    ps = [env.param("p%d" % i, denom=2) for i in range(NPARAMS[name])]
    env.functions += [core.fn_ref(dre._map_qiskit_instr_to_pq)]
    with cm.patched_np(env, dre):
        ins = dre._map_qiskit_instr_to_pq(QI(name, ps), [0, 1], [])
    W = _mode_unitary(env, ins, 2)
    _proportional(env, name, W, qiskit_matrix(env, name, ps))
    # and embedded on the second qubit of a two-qubit register: the other rails are untouched
    with cm.patched_np(env, dre):
        ins2 = dre._map_qiskit_instr_to_pq(QI(name, ps), [2, 3], [])
    W4 = _mode_unitary(env, ins2, 4)
    env.equal("%s on qubit 1: rails of qubit 0 untouched" % name, W4[:2, :], env.np.identity(4)[:2, :])
    env.equal("%s on qubit 1: same block" % name, W4[2:, 2:], W)


def _logical_amplitudes(env, W, rails, aux, n_modes):
    """A[out, in] = <out rails, aux=(1,1)| Lambda(W) |in rails, aux=(1,1)> for the four dual-rail basis states"""
    basis = []
    for q0 in (0, 1):
        for q1 in (0, 1):
            occ = [0] * n_modes
            occ[rails[0][q0]] = 1
            occ[rails[1][q1]] = 1
            for a in aux:
                occ[a] = 1
            basis.append(tuple(occ))
    return [[fc.fock_element(env, W, out, inp, cut="amplitude %s<-%s" % (out, inp)) for inp in basis] for out in basis], basis


def h_two_qubit(env, name):
    """heralded CZ / CX with the fixed KLM beamsplitter angles: on the dual-rail code space with both
    ancilla photons detected, the amplitude matrix is lambda * CZ (resp. CX) within the accuracy of the
    rounded angles; success probability |lambda|^2 is about 2/27."""
    if name == "cz":
        modes, aux = [1, 3], [4, 5]          # the |1> rails of qubits 0 and 1
    else:
        modes, aux = [0, 1, 2, 3], [4, 5]
    env.functions += [core.fn_ref(dre._cz_on_two_bosonic_qubits), core.fn_ref(dre._cnot_on_two_bosonic_qubits)]
    with cm.patched_np(env, dre):
        ins = dre._map_qiskit_instr_to_pq(QI(name), modes, aux)
    post = [i for i in ins if isinstance(i, pq.PostSelectPhotons)]
    env.holds("post-selection on the two ancilla modes with one photon each",
              len(post) == 1 and tuple(post[0].modes) == (4, 5) and list(post[0].params["photon_counts"]) == [1, 1])
    W = _mode_unitary(env, ins, 6, let=True)
    A, basis = _logical_amplitudes(env, W, [(0, 1), (2, 3)], aux, 6)
    G = [[1, 0, 0, 0], [0, 1, 0, 0], [0, 0, 1, 0], [0, 0, 0, -1]] if name == "cz" else [[1, 0, 0, 0], [0, 1, 0, 0], [0, 0, 0, 1], [0, 0, 1, 0]]
    lam = A[0][0]
    eps = 2e-3

    def abs2(z):
        if env.mode == "sym":
            return xa.SC.lift(z).abs2()
        return abs(z) ** 2
    for i in range(4):
        for j in range(4):
            env.ge("eps^2 >= |A[%d,%d] - lambda G[%d,%d]|^2" % (i, j, i, j), eps * eps, abs2(A[i][j] - lam * G[i][j]))
    p = abs2(lam)
    env.ge("success probability >= 2/27 - 1e-3", p, 2 / 27 - 1e-3)
    env.ge("success probability <= 2/27 + 1e-3", 2 / 27 + 1e-3, p)


def h_conditions(env):
    """_get_condition_function / get_bosonic_qubit_samples: for solver-chosen raw outcomes of 2 qubits (4 modes,
    0..2 photons each) the condition is true exactly when the addressed qubit's rails read the asked value, and
    invalid dual-rail patterns are reported, never mis-decoded."""
    o = [env.pick_int("o%d" % k, 0, 2) for k in range(4)]
    q = env.pick_int("qubit", 0, 1)
    val = env.pick_int("value", 0, 1)
    env.functions += [core.fn_ref(dre._get_condition_function), core.fn_ref(dre.get_bosonic_qubit_samples)]
    pair = (o[2 * q], o[2 * q + 1])
    valid = pair in ((1, 0), (0, 1))
    want = valid and (0 if pair == (1, 0) else 1) == val
    try:
        got = dre._get_condition_function(q, val)(tuple(o))
        ok = valid and bool(got) == bool(want)
    except ValueError:
        ok = not valid
    allvalid = all((o[2 * k], o[2 * k + 1]) in ((1, 0), (0, 1)) for k in range(2))
    try:
        s = dre.get_bosonic_qubit_samples([tuple(o)])
        ok = ok and allvalid and s == [tuple(0 if (o[2 * k], o[2 * k + 1]) == (1, 0) else 1 for k in range(2))]
    except ValueError:
        ok = ok and not allvalid
    env.holds("condition / decoding consistent with the dual-rail convention", bool(ok))


class _Bit:
    def __init__(self, index):
        self.index = index


class _Circuit:
    """duck-typed stand-in for the parts of QuantumCircuit the encoder reads"""
    def __init__(self, n, data):
        self.num_qubits = n
        self.data = data

    def find_bit(self, q):
        return q


def h_allocation(env, n, length):
    """_encode_dual_rail_from_qiskit on every solver-chosen gate sequence: one photon on rail 0 of every qubit and on every
    ancilla mode, each two-qubit gate gets its own fresh ancilla pair, every block sits on the rails of the qubits it names,
    and blocks appear in circuit order."""
    env.functions += [core.fn_ref(dre._encode_dual_rail_from_qiskit), core.fn_ref(dre._prep_bosonic_qubits)]
    data, expect = [], []
    for k in range(length):
        kind = env.pick_int("kind%d" % k, 0, 2)
        a = env.pick_int("a%d" % k, 0, n - 1)
        if kind == 0:
            g = QI("rz", [0.25])
            g.qubits = [_Bit(a)]
            expect.append(("rz", [2 * a, 2 * a + 1]))
        else:
            b = env.pick_int("b%d" % k, 0, n - 1)
            if a == b:
                raise xa.PathAbort("two-qubit gate on one qubit")
            g = QI("cz" if kind == 1 else "cx")
            g.qubits = [_Bit(a), _Bit(b)]
            expect.append((g.name, [2 * a + 1, 2 * b + 1] if kind == 1 else [2 * a, 2 * a + 1, 2 * b, 2 * b + 1]))
        data.append(g)
    ins = dre._encode_dual_rail_from_qiskit(_Circuit(n, data))
    n2 = sum(1 for e in expect if e[0] != "rz")
    ok = isinstance(ins[0], pq.Vacuum) and tuple(ins[0].modes) == tuple(range(2 * n + 2 * n2))
    ok = ok and isinstance(ins[1], pq.Create) and sorted(ins[1].modes) == sorted(list(range(0, 2 * n, 2)) + list(range(2 * n, 2 * n + 2 * n2)))
    pos, used_aux = 2, []
    for name, modes in expect:
        if name == "rz":
            want = dre._rz_bosonic(0.25, *modes)
            aux = []
        else:
            aux = [2 * n + len(used_aux), 2 * n + len(used_aux) + 1]
            used_aux += aux
            want = dre._map_qiskit_instr_to_pq(QI(name), modes, aux)
        got = ins[pos:pos + len(want)]
        pos += len(want)
        ok = ok and len(got) == len(want) and all(type(x) is type(y) and tuple(x.modes) == tuple(y.modes) and repr(x.params) == repr(y.params) for x, y in zip(got, want))
    ok = ok and pos == len(ins) and len(set(used_aux)) == len(used_aux)
    env.holds("preparation, rails, fresh ancilla pairs and order", bool(ok))


HARNESSES = {"allocation": h_allocation, "single_qubit": h_single_qubit, "two_qubit": h_two_qubit, "conditions": h_conditions}


def instances(tier):
    out = [("single_qubit", {"name": n}) for n in NPARAMS]
    out += [("two_qubit", {"name": "cz"}), ("two_qubit", {"name": "cx"})]
    out.append(("conditions", {}))
    out.append(("allocation", {"n": 3, "length": 2 if tier == "quick" else 3}))
    return out


EXPLANATION = (
    "Bounded symbolic verification of the dual-rail translation at gate level: for every supported single-qubit gate the instruction list emitted by the real "
    "_map_qiskit_instr_to_pq is composed through the real gate blocks and z3 decides, for ALL angles (half-angle atoms), that the action on the one-photon "
    "amplitudes is the Qiskit matrix up to a global unit scalar (cross-multiplied proportionality + unitarity) and that other rails are untouched - so arbitrary "
    "compositions and classically conditioned blocks agree up to a global phase. For the heralded CZ / CX gadgets the post-selected amplitude matrix on the code "
    "space, computed by permanents of the composed 6-mode unitary with the fixed 54.74 / 17.63 degree angles enclosed to 1e-12, is within 2e-3 of lambda*CZ (CX) with "
    "|lambda|^2 = 2/27 +- 1e-3. The condition functions and the sample decoding are checked on every solver-feasible raw outcome."
)


def run(rep, tier, seed, opts):
    inst = instances(tier)
    if opts.get("only"):
        inst = [i for i in inst if opts["only"] in i[0] or opts["only"] in str(i[1])]
    rep.bounds = {"single-qubit gates": "h x y z rx ry rz u p, all angles", "two-qubit gates": "cz, cx (one gadget each)",
                  "encoder walk": "3 qubits, sequences of 2 gates (3 thorough) from {rz, cz, cx}", "outside": "Qiskit's parser/transpiler (instructions and the circuit are duck-typed stand-ins), whole-circuit simulation with several heralded gates, if_else blocks inside the encoder walk"}
    heavy = [i for i in inst if i[0] not in ("conditions", "allocation")]
    light = [i for i in inst if i[0] in ("conditions", "allocation")]
    o = {"timeout_s": 120 if tier == "quick" else 600, "instance_timeout_s": 1200, "seed": seed, "validation_points": 1}
    for r in core.run_instances(__name__, heavy, o, jobs=opts.get("jobs")):
        rep.add_instance_result(__name__, r)
    if light:
        for r in core.run_instances(__name__, light, dict(o, light_paths=True, path_budget=30000, validation_points=0), jobs=opts.get("jobs")):
            rep.add_instance_result(__name__, r)
    return rep.finish(level="other", explanation=EXPLANATION)
