"""C08 - every reachable state is a physical quantum state (E-XA, one inductive step per instruction)."""
import math

import numpy

import piquasso as pq
from piquasso._simulators.gaussian import simulation_steps as gs
from piquasso._simulators.gaussian import state as gstate
from piquasso._simulators.gaussian.state import GaussianState
from piquasso._simulators.fock.general import simulation_steps as gsteps
from piquasso._simulators.fock import simulation_steps as fsteps
import importlib
ppl = importlib.import_module("piquasso._simulators.fock.pure.simulation_steps.passive_linear")

from .. import xa, core
from . import common as cm
from . import fockcommon as fc
from . import C07


def _lt(env, name, a, b):
    """obligation a < b (strict) on real scalars"""
    if env.mode == "sym":
        env.holds(name, xa.SC.lift(a) < xa.SC.lift(b))
    else:
        env.records.append((name, "holds", bool(numpy.real(a) < numpy.real(b) + 1e-9), None, []))


def _ge(env, name, a, b):
    if env.mode == "sym":
        env.holds(name, xa.SC.lift(a) >= xa.SC.lift(b))
    else:
        env.records.append((name, "holds", bool(numpy.real(a) >= numpy.real(b) - 1e-9 * max(1.0, abs(b))), None, []))


def _assume_ge(env, label, a, b, strict=False):
    if env.mode == "sym":
        a, b = xa.SC.lift(a), xa.SC.lift(b)
        env.assume(label, (a > b) if strict else (a >= b))
    else:
        env.num_assumptions.append((label, bool(numpy.real(a) > numpy.real(b)) if strict else bool(numpy.real(a) >= numpy.real(b) - 1e-12)))


def h_uncertainty_1mode(env, gate):
    """d = 1: from ANY state satisfying the uncertainty relation (sigma > 0, det sigma >= hbar^2) a
    single-mode gate leads to a state satisfying it, with a real symmetric covariance; det is preserved."""
    conn = cm.connector(env)
    hbar = env.pos("hbar")
    cfg = cm.config(env, hbar=hbar, validate=False)
    s = cm.generic_gaussian_state(env, 1, cfg, conn=conn)
    inst, p = C07.make_gate(env, gate)
    inst = inst.on_modes(0)
    C07._encoded_action_functions(env)
    with cm.patched_np(env, gs, gstate):
        sig0 = s.xxpp_covariance_matrix
        det0 = sig0[0, 0] * sig0[1, 1] - sig0[0, 1] * sig0[1, 0]
        _assume_ge(env, "sigma00>0", sig0[0, 0], 0, strict=True)
        _assume_ge(env, "det sigma>=hbar^2", det0, hbar * hbar)
        new = C07._run_step(env, inst, s)
        sig1 = new.xxpp_covariance_matrix
    det1 = sig1[0, 0] * sig1[1, 1] - sig1[0, 1] * sig1[1, 0]
    env.equal("cov symmetric", sig1[0, 1], sig1[1, 0])
    env.equal("cov real", sig1.imag, 0 * sig1.real)
    env.equal("det preserved", det1, det0)
    _lt(env, "sigma'00>0", 0, sig1[0, 0])
    _ge(env, "det sigma'>=hbar^2", det1, hbar * hbar)


def _sample_physical(rng, gate=None, **kw):
    return cm.sample_physical_state(rng, 1, "s")


h_uncertainty_1mode.sampler = _sample_physical


def h_purity_of_pure(env, gates, d):
    """vacuum followed by the listed gates (symbolic parameters) has purity exactly 1 and is_pure for
    every hbar > 0."""
    conn = cm.connector(env)
    hbar = env.pos("hbar")
    cfg = cm.config(env, hbar=hbar, validate=False)
    st = GaussianState(d=d, connector=conn, config=cfg)
    env.functions.append(core.fn_ref(GaussianState.get_purity))
    C07._encoded_action_functions(env)
    with cm.patched_np(env, gs, gstate):
        for k, (g, modes) in enumerate(gates):
            if g == "Displacement":
                inst = pq.Displacement(r=env.real("r%d" % k), phi=env.param("phi%d" % k)).on_modes(*modes)
            else:
                inst, _ = C07.make_gate(env, g, "g%d_" % k)
                inst = inst.on_modes(*modes)
            st = C07._run_step(env, inst, st)
        pur = st.get_purity()
    env.equal("purity == 1", pur, 1)


def h_fock_norm(env, gate, d, cutoff, modes, sim):
    """number-conserving gates preserve the norm of ANY pure Fock state exactly / the trace and
    Hermiticity of any density matrix (real gate blocks with symbolic parameters)."""
    modes = tuple(modes)
    conn = cm.connector(env)
    cfg = cm.config(env, cutoff=cutoff)
    inst, p = C07.make_gate(env, gate)
    U = inst._get_passive_block(conn, cfg)
    env.functions += [core.fn_ref(type(inst)._get_passive_block), core.fn_ref(ppl._calculate_state_vector_after_interferometer),
                      core.fn_ref(fsteps.nb_calculate_index_list_for_appling_interferometer)]
    index_list = fsteps.nb_calculate_index_list_for_appling_interferometer(modes, d, cutoff)
    from . import C01
    reps = C01._representations(env, U, len(modes), cutoff, "numpy")
    b = fc.basis(d, cutoff)
    if sim == "pure":
        psi, _ = fc.generic_state_vector(env, d, cutoff)
        new = ppl._calculate_state_vector_after_interferometer(psi, reps, index_list, conn)
        n0 = sum(x * numpy.conj(x) for x in psi) if env.mode == "num" else sum((xa.SC.lift(x).abs2() for x in psi), xa.SC(xa.ZERO))
        n1 = sum(x * numpy.conj(x) for x in new) if env.mode == "num" else sum((xa.SC.lift(x).abs2() for x in new), xa.SC(xa.ZERO))
        env.equal("norm preserved", n1, n0)
        # and sector by sector
        for n in range(cutoff):
            idx = [i for i, v in enumerate(b) if sum(v) == n]
            a0 = sum(psi[i] * numpy.conj(psi[i]) for i in idx) if env.mode == "num" else sum((xa.SC.lift(psi[i]).abs2() for i in idx), xa.SC(xa.ZERO))
            a1 = sum(new[i] * numpy.conj(new[i]) for i in idx) if env.mode == "num" else sum((xa.SC.lift(new[i]).abs2() for i in idx), xa.SC(xa.ZERO))
            env.equal("norm of the %d-particle sector preserved" % n, a1, a0)
    else:
        rho = env.herm_mat("r", len(b))
        fn = gsteps._calculate_density_matrix_after_interferometer
        env.functions.append(core.fn_ref(fn))
        with cm.patched_np(env, gsteps):
            new = fn(rho, reps, index_list)
        env.equal("trace preserved", env.np.trace(new), env.np.trace(rho))
        env.equal("Hermitian", new, cm.dagger(env, new))


def h_fock_attenuator(env, d, cutoff, mode):
    """Attenuator on the mixed-state Fock simulator: for ANY Hermitian density matrix and loss angle the result is Hermitian,
    has the same trace on the retained sectors' total (loss only moves weight down) and equals the Kraus sum
    sum_k K_k rho K_k^+ with K_k = sum_n sqrt(C(n,k)) cos^(n-k) sin^k |n-k><n| on the lossy mode."""
    import math as _m
    from piquasso._simulators.fock.general.state import FockState
    conn = cm.connector(env)
    cfg = cm.config(env, cutoff=cutoff, validate=False)
    b = fc.basis(d, cutoff)
    N = len(b)
    rho = env.herm_mat("r", N)
    theta = env.param("theta")
    st = FockState(d=d, connector=conn, config=cfg)
    st._density_matrix = rho.copy() if env.mode == "sym" else numpy.array(rho, dtype=complex)
    inst = pq.Attenuator(theta=theta).on_modes(mode)
    env.functions.append(core.fn_ref(fsteps.attenuator))
    if env.mode == "sym":
        env.assume("cos(theta) != 0", xa.SymBool(xa.SC.lift(env.np.cos(theta)).abs2().re >= xa.RV(1) / 64))
    else:
        env.num_assumptions.append(("cos(theta) != 0", abs(numpy.cos(theta)) ** 2 >= 1 / 64))
    gstate_mod = importlib.import_module("piquasso._simulators.fock.general.state")
    with cm.patched_np(env, fsteps, gstate_mod):
        new = fsteps.attenuator(st, inst, None)[0].state._density_matrix
    env.equal("Hermitian", new, cm.dagger(env, new))
    env.equal("trace preserved", env.np.trace(new), env.np.trace(rho))
    # Kraus oracle
    c, s_ = env.np.cos(theta), env.np.sin(theta)
    index = {v: i for i, v in enumerate(b)}
    want = None
    for k in range(cutoff):
        K = numpy.zeros((N, N), dtype=object) if env.mode == "sym" else numpy.zeros((N, N), dtype=complex)
        for v in b:
            n = v[mode]
            if n >= k:
                w = list(v)
                w[mode] = n - k
                K[index[tuple(w)], index[v]] = env.np.sqrt(_m.comb(n, k)) * c ** (n - k) * s_ ** k
        if env.mode == "sym":
            K = xa.xarr(K)
        term = K @ rho @ K.T
        want = term if want is None else want + term
    env.equal("Kraus sum", new, want)


HARNESSES = {"fock_attenuator": h_fock_attenuator, "uncertainty_1mode": h_uncertainty_1mode, "purity_of_pure": h_purity_of_pure, "fock_norm": h_fock_norm}


def instances(tier):
    out = []
    for g in ("Phaseshifter", "Squeezing", "QuadraticPhase", "Fourier"):
        out.append(("uncertainty_1mode", {"gate": g}))
    seqs = [([("Squeezing", (0,))], 1), ([("Squeezing", (0,)), ("Displacement", (0,))], 1), ([("QuadraticPhase", (0,)), ("Phaseshifter", (0,))], 1),
            ([("Squeezing2", (0, 1))], 2), ([("Squeezing", (1,)), ("Beamsplitter", (1, 0))], 2)]
    if tier == "thorough":
        seqs += [([("Squeezing", (0,)), ("QuadraticPhase", (0,)), ("Displacement", (0,))], 1), ([("ControlledZ", (0, 1))], 2), ([("Squeezing2", (1, 0)), ("MachZehnder", (0, 1))], 2),
                 ([("Squeezing", (2,)), ("Beamsplitter", (2, 0))], 3)]
    for gates, d in seqs:
        out.append(("purity_of_pure", {"gates": [[g, list(m)] for g, m in gates], "d": d}))
    cfgs = [("Beamsplitter", 2, 3, (0, 1)), ("Beamsplitter", 2, 3, (1, 0)), ("Phaseshifter", 2, 3, (1,)), ("MachZehnder", 2, 2, (0, 1)), ("Beamsplitter", 3, 2, (2, 0)),
            ("Beamsplitter5050", 2, 3, (0, 1)), ("Fourier", 1, 3, (0,))]
    if tier == "thorough":
        cfgs += [("Beamsplitter", 3, 3, (2, 0)), ("MachZehnder", 2, 3, (1, 0)), ("Beamsplitter", 2, 4, (0, 1)), ("Phaseshifter", 3, 3, (2,))]
    for d, c, m in ((1, 3, 0), (2, 3, 1)) + (((1, 4, 0), (2, 3, 0)) if tier == "thorough" else ()):
        out.append(("fock_attenuator", {"d": d, "cutoff": c, "mode": m}))
    for g, d, c, m in cfgs:
        out.append(("fock_norm", {"gate": g, "d": d, "cutoff": c, "modes": list(m), "sim": "pure"}))
        if c <= 3 and d <= 2:
            out.append(("fock_norm", {"gate": g, "d": d, "cutoff": c, "modes": list(m), "sim": "mixed"}))
    return out


EXPLANATION = (
    "Bounded symbolic verification of physicality as an inductive step per instruction. Gaussian, d=1: from ANY covariance satisfying the uncertainty relation "
    "(sigma00>0, det sigma >= hbar^2; symbolic hbar) each single-mode gate with symbolic parameters yields a real symmetric covariance with the same determinant, "
    "hence again physical (NRA inequalities decided by z3). Purity: vacuum followed by gate sequences has get_purity() == 1 exactly for every hbar (this is the "
    "obligation that exposed the 2**d normalisation, fixed in 1966302). Fock: the real passive-gate application with the real gate blocks preserves the norm of "
    "any pure state sector by sector, and the trace and Hermiticity of any density matrix, for all gate parameters."
)


def run(rep, tier, seed, opts):
    inst = instances(tier)
    if opts.get("only"):
        inst = [i for i in inst if opts["only"] in i[0] or opts["only"] in str(i[1])]
    rep.bounds = {"gaussian": "uncertainty step d=1; purity of pure states d<=2 (3), sequences of <=2 (3) gates", "fock": "d<=3, cutoff<=3 (4)",
                  "outside": "uncertainty relation for d>=2 (follows from the symplectic congruence of C07 by a textbook lemma, not solver-proved), Gaussian channels and conditional (post-measurement) "
                             "Gaussian states, positivity of Fock density matrices, active gates on truncated Fock spaces, fermionic spectra (C17), validators' own eigenvalue logic"}
    o = {"timeout_s": 90 if tier == "quick" else 400, "instance_timeout_s": 900 if tier == "quick" else 3000, "seed": seed, "validation_points": 1}
    for r in core.run_instances(__name__, inst, o, jobs=opts.get("jobs")):
        rep.add_instance_result(__name__, r)
    return rep.finish(level="other", explanation=EXPLANATION)
