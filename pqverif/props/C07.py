"""C07 - built-in linear gates are physical and act as documented (E-XA)."""
import itertools
import math

import numpy

import piquasso as pq
from piquasso._simulators.gaussian import simulation_steps as gs
from piquasso._simulators.gaussian.state import GaussianState
from piquasso._math import indices as mindices

from .. import xa, core
from . import common as cm

# gate table: name -> (class, parameter names, number of modes)
GATES = {
    "Beamsplitter": (pq.Beamsplitter, ("theta", "phi"), 2),
    "Beamsplitter5050": (pq.Beamsplitter5050, (), 2),
    "Phaseshifter": (pq.Phaseshifter, ("phi",), 1),
    "MachZehnder": (pq.MachZehnder, ("int_", "ext"), 2),
    "Fourier": (pq.Fourier, (), 1),
    "Squeezing": (pq.Squeezing, ("r", "phi"), 1),
    "QuadraticPhase": (pq.QuadraticPhase, ("s",), 1),
    "Squeezing2": (pq.Squeezing2, ("r", "phi"), 2),
    "ControlledX": (pq.ControlledX, ("s",), 2),
    "ControlledZ": (pq.ControlledZ, ("s",), 2),
}
PASSIVE = ("Beamsplitter", "Beamsplitter5050", "Phaseshifter", "MachZehnder", "Fourier")


def make_gate(env, gate, tag=""):
    cls, pnames, k = GATES[gate]
    p = {n: env.param(tag + n) for n in pnames}
    return cls(**p), p


def blocks_of(env, inst, cfg, conn):
    """the real code's (P, A) of an instruction"""
    P = inst._get_passive_block(conn, cfg)
    if hasattr(inst, "_get_active_block"):
        A = inst._get_active_block(conn, cfg)
    else:
        A = env.np.zeros(P.shape, dtype=complex)
        if env.mode == "sym":
            A = xa.xarr(A)
    return P, A


def doc_blocks(env, gate, p):
    """(P, A) exactly as written in the gate's documentation (the oracle)."""
    np = env.np
    I = 1j
    arr = (lambda rows: xa.xarr(numpy.array(rows, dtype=object))) if env.mode == "sym" else (lambda rows: numpy.array(rows, dtype=complex))
    if gate == "Beamsplitter":
        t = np.cos(p["theta"])
        r = np.exp(I * p["phi"]) * np.sin(p["theta"])
        return arr([[t, -np.conj(r)], [r, t]]), arr([[0, 0], [0, 0]])
    if gate == "Beamsplitter5050":
        s = 1 / np.sqrt(2)
        return arr([[s, -s], [s, s]]), arr([[0, 0], [0, 0]])
    if gate == "Phaseshifter":
        return arr([[np.exp(I * p["phi"])]]), arr([[0]])
    if gate == "Fourier":
        return arr([[I]]), arr([[0]])
    if gate == "MachZehnder":
        ei, ee = np.exp(I * p["int_"]), np.exp(I * p["ext"])
        return arr([[ee * (ei - 1) / 2, I * (ei + 1) / 2], [I * ee * (ei + 1) / 2, (1 - ei) / 2]]), arr([[0, 0], [0, 0]])
    if gate == "Squeezing":
        return arr([[np.cosh(p["r"])]]), arr([[-np.exp(I * p["phi"]) * np.sinh(p["r"])]])
    if gate == "QuadraticPhase":
        s = p["s"]
        return arr([[1 + I * s / 2]]), arr([[I * s / 2]])
    if gate == "Squeezing2":
        ch, sh = np.cosh(p["r"]), np.exp(I * p["phi"]) * np.sinh(p["r"])
        return arr([[ch, 0], [0, ch]]), arr([[0, sh], [sh, 0]])
    if gate == "ControlledX":
        s = p["s"]
        return arr([[1, -s / 2], [s / 2, 1]]), arr([[0, s / 2], [s / 2, 0]])
    if gate == "ControlledZ":
        s = p["s"]
        return arr([[1, I * s / 2], [I * s / 2, 1]]), arr([[0, I * s / 2], [I * s / 2, 0]])
    raise KeyError(gate)


# ----------------------------------------------------------------------------- harnesses
def h_blocks(env, gate):
    """the gate's ladder-operator transformation equals the documented matrix and is
    symplectic (unitary when passive), for all real parameters."""
    conn = cm.connector(env)
    cfg = cm.config(env)
    inst, p = make_gate(env, gate)
    env.functions += [core.fn_ref(type(inst)._get_passive_block)]
    if hasattr(inst, "_get_active_block"):
        env.functions += [core.fn_ref(type(inst)._get_active_block)]
    P, A = blocks_of(env, inst, cfg, conn)
    Pd, Ad = doc_blocks(env, gate, p)
    env.equal("P==doc", P, Pd)
    env.equal("A==doc", A, Ad)
    k = P.shape[0]
    Id = cm.eye(env, k)
    # S K S^dagger = K  <=>  P P^+ - A A^+ = I  and  P A^T = A P^T
    env.equal("PP+-AA+=I", P @ cm.dagger(env, P) - A @ cm.dagger(env, A), Id)
    env.equal("PA^T=AP^T", P @ A.T, A @ P.T)
    # and the column version (S^+ K S = K)
    env.equal("P+P-A^TA*=I", cm.dagger(env, P) @ P - A.T @ env.np.conj(A), Id)
    env.equal("P+A=A^TP*", cm.dagger(env, P) @ A, A.T @ env.np.conj(P))
    if gate in PASSIVE:
        env.equal("A=0", A, 0 * Id)


def _run_step(env, inst, state):
    if isinstance(inst, (pq.Displacement, pq.PositionDisplacement, pq.MomentumDisplacement)):
        step = gs.displacement
    elif hasattr(inst, "_get_active_block"):
        step = gs.linear
    else:
        step = gs.passive_linear
    env.functions += [core.fn_ref(step)]
    return step(state, inst, None)[0].state


def _encoded_action_functions(env):
    env.functions += [core.fn_ref(f) for f in (
        gs._apply_passive_linear, gs._apply_passive_linear_to_C_and_G, gs._apply_passive_linear_to_auxiliary_modes,
        gs._apply_linear, gs._apply_linear_to_C_and_G, gs._apply_linear_to_auxiliary_modes,
        mindices.get_operator_index, mindices.get_auxiliary_operator_index,
        GaussianState.xxpp_mean_vector, GaussianState.xxpp_covariance_matrix)]
    env.stubs += ["connector.np / module-global np of gaussian/simulation_steps.py -> pqverif numpy facade (object arrays of z3-Real complex scalars)"]


def h_action(env, gate, d, modes):
    """Gaussian simulator: the effect of the gate on `modes` of a generic d-mode state is the
    congruence of mean and covariance by the real symplectic built from the documented blocks."""
    modes = tuple(modes)
    conn = cm.connector(env)
    hbar = env.pos("hbar")
    cfg = cm.config(env, hbar=hbar)
    state = cm.generic_gaussian_state(env, d, cfg, conn=conn)
    inst, p = make_gate(env, gate)
    inst = inst.on_modes(*modes)
    _encoded_action_functions(env)
    with cm.patched_np(env, gs):
        mu0 = state.xxpp_mean_vector
        sig0 = state.xxpp_covariance_matrix
        new = _run_step(env, inst, state)
        mu1 = new.xxpp_mean_vector
        sig1 = new.xxpp_covariance_matrix
    Pd, Ad = doc_blocks(env, gate, p)
    S = cm.real_symplectic_xxpp(env, cm.embed(env, Pd, modes, d), cm.embed(env, Ad, modes, d, identity=False))
    env.equal("mean=S.mu", mu1, S @ mu0)
    env.equal("cov=S.sigma.S^T", sig1, S @ sig0 @ S.T)
    # the ladder-moment representation stays well-formed
    env.equal("C'=C'^+", new._C, cm.dagger(env, new._C))
    env.equal("G'=G'^T", new._G, new._G.T)


def h_generic_transform(env, d, modes):
    """GaussianTransform-like generic (P, A) under the symplectic side condition: covariance
    congruence by S(P, A) on any ordered subset of modes.  Split so that nlsat only meets the
    side condition on a small system:  (a) code(state) - code(vacuum) == oracle(state) -
    oracle(vacuum) with no assumption, (b) code(vacuum) == oracle(vacuum) under the side
    condition; (a) + (b) give code(state) == oracle(state)."""
    modes = tuple(modes)
    k = len(modes)
    conn = cm.connector(env)
    hbar = env.pos("hbar")
    cfg = cm.config(env, hbar=hbar)
    state = cm.generic_gaussian_state(env, d, cfg, conn=conn)
    vac = GaussianState(d=d, connector=conn, config=cfg)
    P = env.cplx_mat("P", k)
    A = env.cplx_mat("A", k)
    Id = cm.eye(env, k)
    _encoded_action_functions(env)
    S = cm.real_symplectic_xxpp(env, cm.embed(env, P, modes, d), cm.embed(env, A, modes, d, identity=False))
    out = []
    with cm.patched_np(env, gs):
        for st in (state, vac):
            mu0 = st.xxpp_mean_vector
            sig0 = st.xxpp_covariance_matrix
            gs._apply_linear(st, P, A, modes)
            out.append((st.xxpp_mean_vector, st.xxpp_covariance_matrix, S @ mu0, S @ sig0 @ S.T))
    (mu1, sig1, omu, osig), (vmu1, vsig1, vomu, vosig) = out
    env.equal("linear part: mean", mu1 - vmu1, omu - vomu)
    env.equal("linear part: cov", sig1 - vsig1, osig - vosig)
    env.assume_equal("PP+-AA+=I", P @ cm.dagger(env, P) - A @ cm.dagger(env, A), Id)
    env.assume_equal("PA^T=AP^T", P @ A.T, A @ P.T)
    env.equal("vacuum: mean", vmu1, vomu)
    env.equal("vacuum: cov", vsig1, vosig)


def _sample_generic_transform(rng, d, modes):
    """valid (P, A): a product of documented gates evaluated in floats"""
    k = len(modes)
    vals = {}
    if k == 1:
        r, phi, th = rng.uniform(-1, 1), rng.uniform(-3, 3), rng.uniform(-3, 3)
        P = numpy.array([[math.cosh(r) * numpy.exp(1j * th)]])
        A = numpy.array([[-math.sinh(r) * numpy.exp(1j * (phi))]])
    else:
        r, phi, th, ph2 = rng.uniform(-1, 1), rng.uniform(-3, 3), rng.uniform(-3, 3), rng.uniform(-3, 3)
        U = numpy.array([[math.cos(th), -numpy.exp(-1j * ph2) * math.sin(th)], [numpy.exp(1j * ph2) * math.sin(th), math.cos(th)]])
        P0 = numpy.array([[math.cosh(r), 0], [0, math.cosh(r)]], dtype=complex)
        A0 = numpy.array([[0, math.sinh(r) * numpy.exp(1j * phi)], [math.sinh(r) * numpy.exp(1j * phi), 0]])
        P, A = U @ P0, U @ A0
    for i in range(k):
        for j in range(k):
            vals["P%d%d.re" % (i, j)] = P[i, j].real
            vals["P%d%d.im" % (i, j)] = P[i, j].imag
            vals["A%d%d.re" % (i, j)] = A[i, j].real
            vals["A%d%d.im" % (i, j)] = A[i, j].imag
    return vals


h_generic_transform.sampler = _sample_generic_transform


def h_displacement(env, kind, d, mode):
    """displacements shift the quadrature means by sqrt(2 hbar) * (Re alpha, Im alpha) and leave
    the covariance unchanged."""
    np = env.np
    conn = cm.connector(env)
    hbar = env.pos("hbar")
    cfg = cm.config(env, hbar=hbar)
    state = cm.generic_gaussian_state(env, d, cfg, conn=conn)
    if kind == "Displacement":
        r, phi = env.real("r"), env.param("phi")
        inst = pq.Displacement(r=r, phi=phi)
        re, im = r * np.cos(phi), r * np.sin(phi)
    elif kind == "PositionDisplacement":
        x = env.real("x")
        inst = pq.PositionDisplacement(x=x)
        re, im = x, 0 * x
    else:
        pp = env.real("p")
        inst = pq.MomentumDisplacement(p=pp)
        re, im = 0 * pp, pp
    inst = inst.on_modes(mode)
    env.functions += [core.fn_ref(gs.displacement), core.fn_ref(type(inst)._get_computed_params), core.fn_ref(GaussianState.xxpp_mean_vector)]
    with cm.patched_np(env, gs):
        mu0 = state.xxpp_mean_vector
        sig0 = state.xxpp_covariance_matrix
        new = _run_step(env, inst, state)
        mu1 = new.xxpp_mean_vector
        sig1 = new.xxpp_covariance_matrix
    scale = np.sqrt(2 * hbar)
    shift = [0 * scale] * (2 * d)
    shift[mode] = scale * re
    shift[d + mode] = scale * im
    shift = env._arr(shift)
    env.equal("mean shift", mu1, mu0 + shift)
    env.equal("cov unchanged", sig1, sig0)


def _compose(env, PA2, PA1):
    """ladder transformation of 'first PA1 then PA2':  S2 S1 with S = [[P, A], [A*, P*]]."""
    np = env.np
    P2, A2 = PA2
    P1, A1 = PA1
    return P2 @ P1 + A2 @ np.conj(A1), P2 @ A1 + A2 @ np.conj(P1)


def _direct_sum(env, a, b):
    n, m = a.shape[0], b.shape[0]
    out = env.np.zeros((n + m, n + m), dtype=complex)
    if env.mode == "sym":
        out = xa.xarr(out)
    out[:n, :n] = a
    out[n:, n:] = b
    return out


def h_identity(env, which):
    """documented identities between gates (real code's blocks on both sides)."""
    np = env.np
    conn = cm.connector(env)
    cfg = cm.config(env)

    def blk(inst):
        env.functions.append(core.fn_ref(type(inst)._get_passive_block))
        return blocks_of(env, inst, cfg, conn)

    if which == "Fourier=Phaseshifter(pi/2)":
        P, A = blk(pq.Fourier())
        Q, B = blk(pq.Phaseshifter(phi=env.const(math.pi / 2)))
        env.equal("P", P, Q)
        env.equal("A", A, B)
    elif which == "Beamsplitter5050=Beamsplitter(pi/4,0)":
        P, A = blk(pq.Beamsplitter5050())
        Q, B = blk(pq.Beamsplitter(theta=env.const(math.pi / 4), phi=env.const(0.0)))
        env.equal("P", P, Q)
        P2, _ = blk(pq.Beamsplitter())  # the defaults are documented to give the 50:50 splitter
        env.equal("P(defaults)", P, P2)
    elif which == "MachZehnder=B.R.B.R":
        i_, e_ = env.param("int_"), env.param("ext")
        P, _ = blk(pq.MachZehnder(int_=i_, ext=e_))
        B, _ = blk(pq.Beamsplitter(theta=env.const(math.pi / 4), phi=env.const(math.pi / 2)))
        Ri, _ = blk(pq.Phaseshifter(phi=i_))
        Re, _ = blk(pq.Phaseshifter(phi=e_))
        one = env._arr([[env.const(1)]]) if env.mode == "sym" else numpy.array([[1.0 + 0j]])
        rhs = B @ _direct_sum(env, Ri, one) @ B @ _direct_sum(env, Re, one)
        env.equal("P", P, rhs)
    elif which == "Squeezing2=B.(S(-z)xS(z)).B":
        r, phi = env.param("r"), env.param("phi")
        PA = blk(pq.Squeezing2(r=r, phi=phi))
        B1 = blk(pq.Beamsplitter(theta=env.const(math.pi / 4), phi=env.const(0.0)))
        B2 = blk(pq.Beamsplitter(theta=env.const(-math.pi / 4), phi=env.const(0.0)))
        Sm = blk(pq.Squeezing(r=-r, phi=phi))
        Sp = blk(pq.Squeezing(r=r, phi=phi))
        mid = (_direct_sum(env, Sm[0], Sp[0]), _direct_sum(env, Sm[1], Sp[1]))
        rhs = _compose(env, B1, _compose(env, mid, B2))
        env.equal("P", PA[0], rhs[0])
        env.equal("A", PA[1], rhs[1])
    else:
        raise KeyError(which)


def h_sequence(env, gate1, modes1, gate2, modes2, d):
    """two gates in sequence: mean/covariance congruence by the product S2 S1."""
    conn = cm.connector(env)
    hbar = env.pos("hbar")
    cfg = cm.config(env, hbar=hbar)
    state = cm.generic_gaussian_state(env, d, cfg, conn=conn)
    i1, p1 = make_gate(env, gate1, "a_")
    i2, p2 = make_gate(env, gate2, "b_")
    i1 = i1.on_modes(*modes1)
    i2 = i2.on_modes(*modes2)
    _encoded_action_functions(env)
    with cm.patched_np(env, gs):
        mu0 = state.xxpp_mean_vector
        sig0 = state.xxpp_covariance_matrix
        s1 = _run_step(env, i1, state)
        s2 = _run_step(env, i2, s1)
        mu1 = s2.xxpp_mean_vector
        sig1 = s2.xxpp_covariance_matrix
    S = None
    for gate, p, modes in ((gate1, p1, modes1), (gate2, p2, modes2)):
        Pd, Ad = doc_blocks(env, gate, p)
        Sg = cm.real_symplectic_xxpp(env, cm.embed(env, Pd, modes, d), cm.embed(env, Ad, modes, d, identity=False))
        S = Sg if S is None else Sg @ S
    env.equal("mean=S2S1.mu", mu1, S @ mu0)
    env.equal("cov=S2S1.sigma.(S2S1)^T", sig1, S @ sig0 @ S.T)


HARNESSES = {
    "blocks": h_blocks,
    "action": h_action,
    "generic_transform": h_generic_transform,
    "displacement": h_displacement,
    "identity": h_identity,
    "sequence": h_sequence,
}

IDENTITIES = ["Fourier=Phaseshifter(pi/2)", "Beamsplitter5050=Beamsplitter(pi/4,0)", "MachZehnder=B.R.B.R", "Squeezing2=B.(S(-z)xS(z)).B"]


def instances(tier, seed):
    out = []
    for g in GATES:
        out.append(("blocks", {"gate": g}))
    for w in IDENTITIES:
        out.append(("identity", {"which": w}))
    dmax = 3 if tier == "quick" else 4
    for g, (cls, pn, k) in GATES.items():
        for d in range(k, dmax + 1):
            subs = cm.ordered_subsets(d, k)
            if tier == "quick" and d == 3 and k == 2:
                subs = [(0, 1), (2, 0), (1, 2), (2, 1)]
            if tier == "thorough" and d == 4 and k == 2:
                subs = [m for m in subs if m in ((0, 3), (3, 0), (1, 3), (3, 1), (2, 1), (0, 2), (3, 2), (2, 3))]
            for m in subs:
                out.append(("action", {"gate": g, "d": d, "modes": list(m)}))
    for kind in ("Displacement", "PositionDisplacement", "MomentumDisplacement"):
        for d in (1, 2) if tier == "quick" else (1, 2, 3):
            for mode in range(d):
                out.append(("displacement", {"kind": kind, "d": d, "mode": mode}))
    for d in (1, 2) if tier == "quick" else (1, 2, 3):
        for k in (1, 2):
            if k > d:
                continue
            for m in cm.ordered_subsets(d, k):
                out.append(("generic_transform", {"d": d, "modes": list(m)}))
    seqs = [("Beamsplitter", (1, 0), "Squeezing", (1,), 2), ("Squeezing2", (0, 1), "Phaseshifter", (0,), 2)]
    if tier == "thorough":
        seqs += [("Squeezing", (0,), "Beamsplitter", (2, 0), 3), ("MachZehnder", (2, 1), "ControlledZ", (0, 2), 3),
                 ("QuadraticPhase", (1,), "ControlledX", (1, 0), 2), ("Squeezing2", (2, 0), "Squeezing2", (1, 2), 3)]
    for g1, m1, g2, m2, d in seqs:
        out.append(("sequence", {"gate1": g1, "modes1": list(m1), "gate2": g2, "modes2": list(m2), "d": d}))
    return out


EXPLANATION = (
    "Bounded symbolic verification. The real gate-block builders (instructions/gates.py) and the real Gaussian update "
    "rules (gaussian/simulation_steps.py, GaussianState getters) are executed on complex scalars whose parts are z3 Real terms; "
    "cos/sin/exp(i.)/cosh/sinh of a gate parameter are algebraic atoms with c^2+s^2=1 / ch^2-sh^2=1, so every 'unsat' covers all real "
    "parameter values, all hbar>0 and an arbitrary (m, C=C^+, G=G^T) input state at once. Each obligation 'entry of real output != entry of oracle' "
    "is decided by z3 (nlsat); sat models are replayed on the float code before being reported. Bounds: number of modes d and the mode "
    "subsets listed under 'bounds'; sequences of at most 2 gates."
)


def run(rep, tier, seed, opts):
    inst = instances(tier, seed)
    if opts.get("only"):
        inst = [i for i in inst if opts["only"] in i[0] or opts["only"] in str(i[1])]
    rep.bounds = {"d_max": 3 if tier == "quick" else 4, "instances": len(inst), "gate_parameters": "all reals (symbolic)", "hbar": "all hbar>0 (symbolic)",
                  "sequence_length": 2, "outside": "d>4; sequences of more than two gates; float rounding; user matrices of Interferometer/GaussianTransform beyond the generic (P,A) harness with k<=2"}
    o = {"timeout_s": 60 if tier == "quick" else 300, "instance_timeout_s": 400 if tier == "quick" else 1800, "seed": seed, "validation_points": 2}
    results = core.run_instances(__name__, inst, o, jobs=opts.get("jobs"))
    for r in results:
        rep.add_instance_result(__name__, r)
    return rep.finish(level="other", explanation=EXPLANATION)
