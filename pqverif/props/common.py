"""Shared helpers for the E-XA property modules."""
import contextlib
import itertools

import numpy

from .. import xa
from ..xa import xnp

import piquasso as pq
from piquasso._simulators.connectors import NumpyConnector
from piquasso._simulators.gaussian.state import GaussianState


class SymConnector(NumpyConnector):
    """NumpyConnector whose numpy API is the symbolic-aware facade (the only substitution)."""

    np = fallback_np = forward_pass_np = xnp

    def block(self, arrs):
        return xnp.block(arrs)

    def block_diag(self, *arrs):
        n = sum(a.shape[0] for a in arrs)
        m = sum(a.shape[1] for a in arrs)
        out = xnp.zeros((n, m))
        i = j = 0
        for a in arrs:
            out[i:i + a.shape[0], j:j + a.shape[1]] = a
            i += a.shape[0]
            j += a.shape[1]
        return out

    def calculate_interferometer_on_fermionic_fock_space(self, matrix, cutoff):
        # the NumpyConnector binds the compiled kernel here; run its Python source on the facade instead
        from piquasso._simulators.connectors.numpy_ import connections as _npc
        fn = _npc.calculate_interferometer_on_fermionic_fock_space.py_func
        g = fn.__globals__
        saved = g["np"]
        g["np"] = xnp
        try:
            return fn(matrix, cutoff)
        finally:
            g["np"] = saved

    def calculate_interferometer_on_fock_space(self, interferometer, helper_indices):
        from piquasso._simulators.connectors.numpy_ import interferometer as _npi
        fn = _npi.calculate_interferometer_on_fock_space.py_func
        g = fn.__globals__
        saved = g["np"]
        g["np"] = xnp
        try:
            return fn(interferometer, helper_indices)
        finally:
            g["np"] = saved

    # ---- contract stubs for the matrix-function kernels (their own conformance is property C04)
    def permanent(self, matrix, rows, cols):
        from . import fockcommon as fc
        r, c = fc.repeat_index([int(x) for x in rows]), fc.repeat_index([int(x) for x in cols])
        if not r:
            return 1.0
        return fc.perm(numpy.asarray(matrix, dtype=object)[numpy.ix_(r, c)])

    def loop_hafnian(self, matrix, diagonal, reduce_on):
        from . import fockcommon as fc
        idx = fc.repeat_index([int(x) for x in reduce_on])
        A = numpy.asarray(matrix, dtype=object)[numpy.ix_(idx, idx)] if idx else numpy.zeros((0, 0), dtype=object)
        dg = [numpy.asarray(diagonal, dtype=object)[i] for i in idx]
        return fc.loop_hafnian_def(A, dg)

    def hafnian(self, matrix, reduce_on):
        from . import fockcommon as fc
        idx = fc.repeat_index([int(x) for x in reduce_on])
        A = numpy.asarray(matrix, dtype=object)[numpy.ix_(idx, idx)] if idx else numpy.zeros((0, 0), dtype=object)
        return fc.loop_hafnian_def(A, [0] * len(idx))

    def powm(self, a, k):
        return xnp.linalg.matrix_power(a, k)

    def scatter(self, indices, updates, shape):
        embedded = xnp.zeros(shape)
        idx = numpy.array(indices)
        comp = tuple([idx[:, i] for i in range(len(shape))])
        embedded[comp] = xnp.array(updates)
        return embedded

    def sqrtm(self, m):
        raise xa.HarnessError("sqrtm reached in symbolic execution (LAPACK; no contract stub installed)")

    def svd(self, m):
        raise xa.HarnessError("svd reached in symbolic execution (LAPACK; no contract stub installed)")

    def schur(self, m):
        raise xa.HarnessError("schur reached in symbolic execution (LAPACK; no contract stub installed)")

    def polar(self, m, side="right"):
        raise xa.HarnessError("polar reached in symbolic execution (LAPACK; no contract stub installed)")

    def logm(self, m):
        raise xa.HarnessError("logm reached in symbolic execution (LAPACK; no contract stub installed)")

    def expm(self, m):
        """closed form per invariant block (connected components of the non-zero pattern): for a block B
        with B^2 == -w^2 I (the solver checks that premise as an obligation) expm(B) = cos(w) I +
        (sin(w)/w) B with w = sqrt(w^2), w != 0 recorded as an assumption; a zero 1x1 block gives 1."""
        env = xa.cur()
        m = xa.xarr(numpy.asarray(m, dtype=object))
        n = m.shape[0]

        def nz(v):
            v = xa.SC.lift(v)
            return not (v.is_const() and v.const() == 0)
        comp = list(range(n))
        for a in range(n):
            for b in range(n):
                if nz(m[a, b]) and comp[a] != comp[b]:
                    old, new_ = comp[b], comp[a]
                    comp = [new_ if c == old else c for c in comp]
        out = xnp.zeros((n, n))
        env.stubs.append("connector.expm -> per invariant block: cos(w) I + sin(w)/w B under the solver-checked premise B^2 == -w^2 I (w != 0 assumed)")
        for cid in sorted(set(comp)):
            idx = [k for k in range(n) if comp[k] == cid]
            B = m[numpy.ix_(idx, idx)]
            if len(idx) == 1 and not nz(B[0, 0]):
                out[idx[0], idx[0]] = 1
                continue
            B2 = B @ B
            w2 = -xa.SC.lift(B2[0, 0])
            ident = xnp.identity(len(idx))
            env.equal("expm premise on block %s: B^2 == -w^2 I" % (idx,), B2, ident * (-w2))
            w = w2.sqrt()
            c, s_ = env.trig(w)
            R = ident * c + B * (s_ / w)
            for a_, ia in enumerate(idx):
                for b_, ib in enumerate(idx):
                    out[ia, ib] = R[a_, b_]
        return out


def connector(env):
    return SymConnector() if env.mode == "sym" else NumpyConnector()


@contextlib.contextmanager
def patched_np(env, *modules_or_funcs):
    """Replace the module-global `np` of the given modules / functions by the facade for the
    duration of the block (sym mode only)."""
    saved = []
    if env.mode == "sym":
        for m in modules_or_funcs:
            g = m.__globals__ if hasattr(m, "__globals__") else vars(m)
            if "np" in g:
                saved.append((g, "np", g["np"]))
                g["np"] = xnp
    try:
        yield
    finally:
        for g, k, v in saved:
            g[k] = v


def config(env, hbar=None, **kw):
    cfg = pq.Config(**kw)
    if hbar is not None:
        cfg.hbar = hbar
    return cfg


def generic_gaussian_state(env, d, cfg, name="s", displaced=True, conn=None):
    """arbitrary ladder-moment representation: m complex, C Hermitian, G symmetric."""
    conn = conn or connector(env)
    if displaced:
        m = env.cplx_vec(name + "m", d)
    else:
        m = env._arr([env.const(0)] * d) if env.mode == "sym" else numpy.zeros(d, dtype=complex)
    C = env.herm_mat(name + "C", d)
    G = env.sym_cplx_mat(name + "G", d)
    return GaussianState._from_representation(m=m, G=G, C=C, config=cfg, connector=conn)


def embed(env, block, modes, d, identity=True):
    np = env.np
    out = np.identity(d, dtype=complex) if identity else np.zeros((d, d), dtype=complex)
    if env.mode == "sym":
        out = xa.xarr(out)
    for a, ma in enumerate(modes):
        for b, mb in enumerate(modes):
            out[ma, mb] = block[a, b]
    return out


def real_symplectic_xxpp(env, P, A):
    """xxpp real symplectic of a -> P a + A a^dagger (independent of hbar)."""
    np = env.np
    return np.block([[P.real + A.real, -P.imag + A.imag], [P.imag + A.imag, P.real - A.real]])


def ordered_subsets(d, k):
    return list(itertools.permutations(range(d), k))


def dagger(env, M):
    return env.np.conj(M).T


def eye(env, n):
    return env.np.identity(n)


def sample_physical_state(rng, d, name="s", displaced=True, pure=False):
    """values for generic_gaussian_state(name) describing a *physical* Gaussian state:
    thermal occupations pushed through random squeezers and a random interferometer, computed
    from the definitions of C = <a^+ a> and G = <a a> (independent of piquasso)."""
    import math
    import numpy as np
    nbar = np.array([0.0 if pure else rng.choice([0.0, 0.25, 0.5, 1.0]) for _ in range(d)])
    C = np.diag(nbar).astype(complex)
    G = np.zeros((d, d), dtype=complex)
    m = np.array([complex(rng.randint(-8, 8) / 8.0, rng.randint(-8, 8) / 8.0) if displaced else 0j for _ in range(d)])

    def apply(P, A, C, G, m):
        I = np.identity(d)
        G2 = P @ G @ P.T + A @ G.conj().T @ A.T + P @ (C.T + I) @ A.T + A @ C @ P.T
        C2 = P.conj() @ C @ P.T + A.conj() @ (C.T + I) @ A.T + P.conj() @ G.conj().T @ A.T + A.conj() @ G @ P.T
        return C2, G2, P @ m + A @ m.conj()

    for i in range(d):
        r, phi = rng.uniform(-0.8, 0.8), rng.uniform(-3, 3)
        P = np.identity(d, dtype=complex)
        A = np.zeros((d, d), dtype=complex)
        P[i, i] = math.cosh(r)
        A[i, i] = -math.sinh(r) * np.exp(1j * phi)
        C, G, m = apply(P, A, C, G, m)
    if d > 1:
        import scipy.stats
        U = scipy.stats.unitary_group.rvs(d, random_state=rng.randint(0, 2 ** 31 - 1))
        C, G, m = apply(U, np.zeros((d, d), dtype=complex), C, G, m)
    vals = {}
    for i in range(d):
        if displaced:
            vals["%sm%d.re" % (name, i)] = m[i].real
            vals["%sm%d.im" % (name, i)] = m[i].imag
        vals["%sC%d%d" % (name, i, i)] = C[i, i].real
        for j in range(i + 1, d):
            vals["%sC%d%d.re" % (name, i, j)] = C[i, j].real
            vals["%sC%d%d.im" % (name, i, j)] = C[i, j].imag
        for j in range(i, d):
            vals["%sG%d%d.re" % (name, i, j)] = G[i, j].real
            vals["%sG%d%d.im" % (name, i, j)] = G[i, j].imag
    return vals
