"""C18 - program construction is faithful: nesting, dictionary format, copies, preparation algebra
(E-XA for the algebra, E-CH for the structural parts).  The text layers (Blackbird dumps/loads,
as_code + exec) are C-level string conversions and are not claimed."""
import itertools

import numpy

import piquasso as pq
from piquasso.instructions import preparations as prep
from piquasso.core import _mixins
from piquasso._simulators.fock.pure import simulation_steps as psteps
from piquasso._simulators.fock.pure.state import PureFockState
from piquasso.api import program as _prog, instruction as _ins

from .. import xa, core, ch
from . import common as cm
from . import fockcommon as fc

# expression templates over fresh leaves a, b, c, d (NumberState) and scalars x, y
TEMPLATES = {
    "a+b": lambda a, b, c, d, x, y: a + b,
    "(a+b)+c": lambda a, b, c, d, x, y: (a + b) + c,
    "a+(b+c)": lambda a, b, c, d, x, y: a + (b + c),
    "x*a+y*b": lambda a, b, c, d, x, y: x * a + y * b,
    "a*x+b*y": lambda a, b, c, d, x, y: a * x + b * y,
    "a+x*(b+c)": lambda a, b, c, d, x, y: a + x * (b + c),
    "x*(a+b)+c": lambda a, b, c, d, x, y: x * (a + b) + c,
    "x*(a+b)+y*(c+d)": lambda a, b, c, d, x, y: x * (a + b) + y * (c + d),
    "a+(b+c)/x": lambda a, b, c, d, x, y: a + (b + c) / x,
    "(a+b)/x+c": lambda a, b, c, d, x, y: (a + b) / x + c,
    "x*(y*(a+b))": lambda a, b, c, d, x, y: x * (y * (a + b)),
    "(x*a+b)+(c+y*d)": lambda a, b, c, d, x, y: (x * a + b) + (c + y * d),
    "a+(b+(c+d))": lambda a, b, c, d, x, y: a + (b + (c + d)),
    "((a+b)+c)+d": lambda a, b, c, d, x, y: ((a + b) + c) + d,
    "y*(a+x*(b+c))+d": lambda a, b, c, d, x, y: y * (a + x * (b + c)) + d,
    "a/x+b/y": lambda a, b, c, d, x, y: a / x + b / y,
}

OCCS = {
    "distinct": [(1, 0), (0, 1), (1, 1), (2, 0)],
    "a=b": [(1, 0), (1, 0), (0, 1), (2, 0)],
    "a=c": [(1, 0), (0, 1), (1, 0), (2, 0)],
    "b=c": [(1, 0), (0, 1), (0, 1), (1, 1)],
    "a=d,b=c": [(1, 0), (0, 1), (0, 1), (1, 0)],
    "all equal": [(1, 1), (1, 1), (1, 1), (1, 1)],
}


class _Lin:
    """the oracle: a formal linear combination {occupation: coefficient}"""
    def __init__(self, m):
        self.m = m
    def __add__(self, o):
        out = dict(self.m)
        for k, v in o.m.items():
            out[k] = out[k] + v if k in out else v
        return _Lin(out)
    def __mul__(self, s):
        return _Lin({k: v * s for k, v in self.m.items()})
    __rmul__ = __mul__
    def __truediv__(self, s):
        return _Lin({k: v / s for k, v in self.m.items()})


def h_algebra(env, template, occs):
    """the amplitudes prepared by a composite NumberState expression equal the linear combination the
    expression denotes, for symbolic complex coefficients and scalars (operands are fresh objects)."""
    f = TEMPLATES[template]
    occ = OCCS[occs]
    coeffs = [env.cplx("k%d" % i) for i in range(4)]
    x, y = env.cplx("x"), env.cplx("y")
    if env.mode == "num":
        env.num_assumptions.append(("x,y != 0", abs(x) > 1e-6 and abs(y) > 1e-6))
    else:
        env.assume("x != 0", xa.SymBool(x.abs2().re >= xa.RV(1) / 64))
        env.assume("y != 0", xa.SymBool(y.abs2().re >= xa.RV(1) / 64))
    leaves = [pq.NumberState(list(o), coefficient=k) for o, k in zip(occ, coeffs)]
    inst = f(*leaves, x, y)
    want = f(*[_Lin({o: k}) for o, k in zip(occ, coeffs)], x, y)
    env.functions += [core.fn_ref(prep.NumberState.__add__), core.fn_ref(prep.FockStateVector.__add__), core.fn_ref(_mixins.WeightMixin.__mul__),
                      core.fn_ref(_mixins.WeightMixin.__truediv__), core.fn_ref(psteps.state_vector_instruction)]
    # through the real preparation step of the pure Fock simulator
    conn = cm.connector(env)
    cfg = cm.config(env, cutoff=3)
    st = PureFockState(d=2, connector=conn, config=cfg)
    st.state_vector = st.state_vector * 0
    with cm.patched_np(env, psteps):
        new = psteps.state_vector_instruction(st, inst, None)[0].state
    b = fc.basis(2, 3)
    for i, v in enumerate(b):
        env.equal("amplitude%s" % (v,), new.state_vector[i], want.m.get(v, 0))


def _sample_algebra(rng, template, occs):
    v = {}
    for n in ("k0", "k1", "k2", "k3", "x", "y"):
        v[n + ".re"] = rng.randint(1, 16) / 8.0
        v[n + ".im"] = rng.randint(-16, 16) / 8.0
    return v


h_algebra.sampler = _sample_algebra

_PLAIN = {}


def _plain():
    if not _PLAIN:
        exec(compile(HEADER, "<C18 plain harness>", "exec"), _PLAIN)
    return _PLAIN


def h_nest(env, i0, i1):
    """nesting depth 3 with solver-chosen registers (every feasible assignment is a path)."""
    r = [env.pick_int("r%d" % k, 0, 4) for k in range(3)]
    s_ = [env.pick_int("s%d" % k, 0, 2) for k in range(3)]
    if len(set(r)) < 3 or len(set(s_)) < 3:
        if env.mode == "sym":
            raise xa.PathAbort("registers must be distinct")
        env.num_assumptions.append(("distinct registers", False))
        return
    env.functions += [core.fn_ref(_prog.Program._map_modes), core.fn_ref(_prog.Program._apply_to_program_on_register)]
    env.holds("inner modes mapped once per level, inner program unchanged and reusable", bool(_plain()["nest"](r[0], r[1], r[2], i0, i1, s_[0], s_[1], s_[2])))


def h_fromdict(env):
    m = [env.pick_int("m%d" % k, 0, 4) for k in range(3)]
    a, b = env.pick_int("a", -2, 2), env.pick_int("b", -2, 2)
    if m[0] == m[1]:
        if env.mode == "sym":
            raise xa.PathAbort("distinct")
        env.num_assumptions.append(("distinct", False))
        return
    env.functions += [core.fn_ref(_prog.Program.from_dict), core.fn_ref(_ins.Instruction.from_dict)]
    env.holds("from_dict / copy reproduce classes, modes and parameters", bool(_plain()["from_dict_roundtrip"](a, b, m[0], m[1], m[2])))


# documented positional argument order of the Blackbird operations (Blackbird / Strawberry Fields gate signatures)
BB_ARGS = {"Dgate": ("Displacement", ["r", "phi"]), "Xgate": ("PositionDisplacement", ["x"]), "Zgate": ("MomentumDisplacement", ["p"]),
           "Sgate": ("Squeezing", ["r", "phi"]), "Pgate": ("QuadraticPhase", ["s"]), "Kgate": ("Kerr", ["xi"]), "Rgate": ("Phaseshifter", ["phi"]),
           "BSgate": ("Beamsplitter", ["theta", "phi"]), "MZgate": ("MachZehnder", ["int_", "ext"]), "S2gate": ("Squeezing2", ["r", "phi"]),
           "CXgate": ("ControlledX", ["s"]), "CZgate": ("ControlledZ", ["s"]), "CKgate": ("CrossKerr", ["xi"]), "Vgate": ("CubicPhase", ["gamma"]),
           "Fouriergate": ("Fourier", [])}
BB_TWO_MODE = {"BSgate", "MZgate", "S2gate", "CXgate", "CZgate", "CKgate"}


class _Tok:
    """an opaque parameter value: the export / load code may pass it around but not compute with it"""
    def __init__(self, n):
        self.n = n

    def __repr__(self):
        return "<%s>" % self.n


def h_blackbird_ops(env):
    """operation-level Blackbird round trip (no text): export_instructions puts every gate's parameters into the documented
    positional order of its Blackbird operation, and load_instructions(export_instructions(p)) reproduces classes, modes
    (in order) and parameters - for opaque parameter values and every solver-chosen gate / mode assignment."""
    from piquasso.core import _blackbird as B
    names = sorted(BB_ARGS)
    g = env.pick_int("gate", 0, len(names) - 1)
    bbname = names[g]
    pqname, argnames = BB_ARGS[bbname]
    m0 = env.pick_int("m0", 0, 3)
    modes = [m0]
    if bbname in BB_TWO_MODE:
        m1 = env.pick_int("m1", 0, 3)
        if m1 == m0:
            if env.mode == "sym":
                raise xa.PathAbort("distinct")
            env.num_assumptions.append(("distinct", False))
            return
        modes.append(m1)
    env.functions += [core.fn_ref(B.export_instructions), core.fn_ref(B.load_instructions), core.fn_ref(B._piquasso_instruction_to_blackbird_operation),
                      core.fn_ref(B._blackbird_operation_to_instruction), core.fn_ref(B._get_instruction_params)]
    cls = getattr(pq, pqname)
    toks = {n: _Tok(n) for n in argnames}
    first = pq.Phaseshifter(_Tok("first")).on_modes(3 - m0)
    inst = cls(**toks).on_modes(*modes)
    last = pq.Squeezing(_Tok("r_last"), _Tok("phi_last")).on_modes(m0)
    prog = B.export_instructions([first, inst, last])
    ops = prog.operations
    ok = len(ops) == 3 and ops[1]["op"] == bbname and list(ops[1]["modes"]) == modes
    ok = ok and len(ops[1]["args"]) == len(argnames) and all(a is toks[n] for a, n in zip(ops[1]["args"], argnames))
    ok = ok and ops[0]["op"] == "Rgate" and ops[2]["op"] == "Sgate"
    back = B.load_instructions(prog)
    ok = ok and len(back) == 3
    for x, y in zip(back, [first, inst, last]):
        ok = ok and type(x) is type(y) and tuple(x.modes) == tuple(y.modes) and list(x.params) == list(y.params) \
            and all(x.params[k] is y.params[k] for k in y.params)
    env.holds("operation-level export order and round trip", bool(ok))


HARNESSES = {"algebra": h_algebra, "nest": h_nest, "fromdict": h_fromdict, "blackbird_ops": h_blackbird_ops}

# ----------------------------------------------------------------------------- structural parts (E-CH)
HEADER = '''from typing import Tuple
import copy
import piquasso as pq


def nest(r0, r1, r2, i0, i1, s0, s1, s2):
    """inner program: gates on modes (i0, i1) and (i1,); registered twice in an outer program through the
    register (r0, r1, r2); the outer program is registered in a third through (s0, s1, s2) ... depth 3."""
    with pq.Program() as inner:
        pq.Q(i0, i1) | pq.Beamsplitter(0.3, 0.1)
        pq.Q(i1) | pq.Phaseshifter(0.2)
    before = [(type(i).__name__, i.modes, dict(i.params)) for i in inner.instructions]
    ids = [id(i) for i in inner.instructions]
    with pq.Program() as outer:
        pq.Q(r0, r1, r2) | inner
        pq.Q(r2, r0, r1) | inner
    ok = [(type(i).__name__, i.modes, dict(i.params)) for i in inner.instructions] == before
    ok = ok and [id(i) for i in inner.instructions] == ids
    R, R2 = (r0, r1, r2), (r2, r0, r1)
    want = [(R[i0], R[i1]), (R[i1],), (R2[i0], R2[i1]), (R2[i1],)]
    ok = ok and [i.modes for i in outer.instructions] == want
    ok = ok and all(id(i) not in ids for i in outer.instructions)
    with pq.Program() as top:
        pq.Q(s0, s1, s2, 3, 4) | outer
    S = (s0, s1, s2, 3, 4)
    ok = ok and [i.modes for i in top.instructions] == [tuple(S[m] for m in w) for w in want]
    ok = ok and [i.modes for i in outer.instructions] == want
    # the inner program is still reusable on its own
    with pq.Program() as again:
        pq.Q() | inner
    ok = ok and [i.modes for i in again.instructions] == [(i0, i1), (i1,)]
    return ok


def from_dict_roundtrip(a, b, m0, m1, m2):
    """Program.from_dict builds the instruction classes, modes and keyword parameters it is given"""
    d = {"instructions": [
        {"type": "Beamsplitter", "attributes": {"constructor_kwargs": {"theta": a, "phi": b}, "modes": [m0, m1]}},
        {"type": "Phaseshifter", "attributes": {"constructor_kwargs": {"phi": b}, "modes": [m2]}},
        {"type": "Squeezing", "attributes": {"constructor_kwargs": {"r": a}, "modes": [m1]}},
    ]}
    p = pq.Program.from_dict(d)
    ins = p.instructions
    ok = [type(i).__name__ for i in ins] == ["Beamsplitter", "Phaseshifter", "Squeezing"]
    ok = ok and [tuple(i.modes) for i in ins] == [(m0, m1), (m2,), (m1,)]
    ok = ok and ins[0].params == {"theta": a, "phi": b} and ins[1].params == {"phi": b} and ins[2].params["r"] == a and ins[2].params["phi"] == 0.0
    c = p.copy()
    ok = ok and [(type(i).__name__, tuple(i.modes), i.params) for i in c.instructions] == [(type(i).__name__, tuple(i.modes), i.params) for i in ins]
    ok = ok and all(x is not y for x, y in zip(c.instructions, ins))
    return ok
'''


def conditions(tier):
    parts, conds = [], []
    for i0, i1 in ((0, 1), (2, 0), (1, 2)):
        fn = "nest_%d%d" % (i0, i1)
        parts.append('def %s(r0: int, r1: int, r2: int, s0: int, s1: int, s2: int) -> bool:\n    """\n'
                     '    pre: 0 <= r0 <= 4 and 0 <= r1 <= 4 and 0 <= r2 <= 4 and len({r0, r1, r2}) == 3\n'
                     '    pre: 0 <= s0 <= 2 and 0 <= s1 <= 2 and 0 <= s2 <= 2 and len({s0, s1, s2}) == 3\n    post: _\n    """\n'
                     '    return nest(r0, r1, r2, %d, %d, s0, s1, s2)\n\n' % (fn, i0, i1))
        conds.append({"fn": fn, "timeout_s": 120, "desc": "nesting depth 3: inner modes (%d,%d) mapped through symbolic registers exactly once per level; inner program unchanged and reusable" % (i0, i1)})
    parts.append('def fromdict(a: int, b: int, m0: int, m1: int, m2: int) -> bool:\n    """\n    pre: 0 <= m0 <= 5 and 0 <= m1 <= 5 and 0 <= m2 <= 5 and m0 != m1\n    post: _\n    """\n'
                 '    return from_dict_roundtrip(a, b, m0, m1, m2)\n\n')
    conds.append({"fn": "fromdict", "timeout_s": 90, "desc": "Program.from_dict / copy reproduce instruction types, modes and parameter values (symbolic ints as opaque values)"})
    parts.append('def twin_nest(r0: int, r1: int, r2: int) -> bool:\n    """\n    pre: 0 <= r0 <= 4 and 0 <= r1 <= 4 and 0 <= r2 <= 4 and len({r0, r1, r2}) == 3\n    post: False\n    """\n'
                 '    return nest(r0, r1, r2, 0, 1, 0, 1, 2)\n\n')
    conds.append({"fn": "twin_nest", "twin": True})
    return "".join(parts), conds


def instances(tier):
    out = [("nest", {"i0": a_, "i1": b_}) for a_, b_ in ((0, 1), (2, 0), (1, 2))] + [("fromdict", {}), ("blackbird_ops", {})]
    for t in TEMPLATES:
        for o in OCCS:
            out.append(("algebra", {"template": t, "occs": o}))
    return out


EXPLANATION = (
    "Preparation algebra: every expression template over fresh NumberState operands (4 leaves, scalar * on either side, /, both groupings, equal and distinct "
    "occupations) is built with the real operator overloads and handed to the real state-vector preparation step with SYMBOLIC complex coefficients; z3 decides "
    "that each prepared amplitude equals the linear combination the expression denotes. Structure: CrossHair confirms over symbolic registers that nested programs "
    "map inner modes through each enclosing register exactly once (depth 3), leave the inner program unchanged and reusable, and that Program.from_dict / copy "
    "reproduce classes, modes and parameter values."
)


def run(rep, tier, seed, opts):
    only = opts.get("only")
    inst = instances(tier)
    if only:
        inst = [i for i in inst if only in i[0] or only in str(i[1])]
    if inst:
        o = {"timeout_s": 60 if tier == "quick" else 300, "instance_timeout_s": 900, "seed": seed, "validation_points": 1, "path_budget": 20000, "light_paths": True}
        for r in core.run_instances(__name__, inst, o, jobs=opts.get("jobs")):
            rep.add_instance_result(__name__, r)
    wsrc, conds = "", []       # structural parts run on the light explorer (h_nest, h_fromdict); the CrossHair formulation timed out
    for f in (_prog.Program._map_modes, _prog.Program._apply_to_program_on_register, _prog.Program.from_dict, _ins.Instruction.from_dict, _ins.Instruction._apply_to_program_on_register, _mixins.RegisterMixin.copy):
        rep.note_function(f)
    rep.bounds = {"algebra": "%d templates x %d occupation patterns, <= 4 leaves" % (len(TEMPLATES), 2 if tier == "quick" else len(OCCS)), "nesting": "depth 3, registers of 3 symbolic modes in 0..4",
                  "outside": "Blackbird text export/import (ANTLR, float formatting), as_code + exec (Python/NumPy repr) - C-level string conversions; operands reused in several sub-expressions (the overloads mutate their left operand)"}
    if conds:
        ch.run_conditions(rep, HEADER + "\n\n" + wsrc, conds, timeout_s=90, per_path=20, jobs=opts.get("jobs"))
    return rep.finish(level="other", explanation=EXPLANATION)
