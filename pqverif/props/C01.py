"""C01 - all bosonic simulators agree on photon-number statistics (E-XA; passive sector + Kerr-type
gates + attenuation; Gaussian<->Fock only through shared kernels, see DESIGN)."""
import itertools
import math

import numpy

import piquasso as pq
from piquasso._simulators.passive import utils as putils
from piquasso._simulators.fock import simulation_steps as fsteps
import importlib
ppl = importlib.import_module("piquasso._simulators.fock.pure.simulation_steps.passive_linear")
from piquasso._simulators.fock.pure import simulation_steps as psteps
from piquasso._simulators.fock.general import simulation_steps as gsteps
from piquasso._simulators.fock.pure.state import PureFockState
from piquasso._simulators.fock.general.state import FockState
from piquasso._simulators.connectors.numpy_ import interferometer as np_interf
from piquasso._simulators.connectors.connector import BuiltinConnector

from .. import xa, core
from . import common as cm
from . import fockcommon as fc


def _representations(env, U, d, cutoff, which):
    idx = fc.helper_indices(env, d, cutoff)
    if which == "numpy":
        fn = np_interf.calculate_interferometer_on_fock_space.py_func
        with cm.patched_np(env, fn):
            return fn(U, idx)
    conn = cm.connector(env)
    return BuiltinConnector.calculate_interferometer_on_fock_space(conn, U, idx)


def h_representation(env, d, n, which):
    """n-particle block of the Fock-space representation of a GENERIC complex d x d matrix:
    real recursion (numpy kernel / connector-generic einsum version) == SLOS state vector of the
    passive simulator == permanent definition, entry by entry."""
    cutoff = n + 1
    U = env.cplx_mat("u", d)
    conn = cm.connector(env)
    cfg = cm.config(env, cutoff=cutoff)
    env.functions += [core.fn_ref(fsteps.calculate_interferometer_helper_indices), core.fn_ref(putils.calculate_state_vector),
                      core.fn_ref(np_interf.calculate_interferometer_on_fock_space if which == "numpy" else BuiltinConnector.calculate_interferometer_on_fock_space)]
    env.stubs.append("module-global np of the numba kernels' Python sources / connector.np -> pqverif numpy facade (exact square roots)")
    reps = _representations(env, U, d, cutoff, which)
    sec = fc.sector(d, n)
    rep = reps[n]
    for col, inp in enumerate(sec):
        sv = putils.calculate_state_vector(U, numpy.array(inp), ((), ()), cfg, conn)
        env.equal("SLOS==rep col %s" % (inp,), sv, rep[:, col])
        for row, out in enumerate(sec):
            env.equal("rep[%s,%s]==perm/sqrt" % (out, inp), rep[row, col], fc.fock_element(env, U, out, inp))


def h_apply_on_modes(env, d, cutoff, modes, sim):
    """a generic k x k matrix applied on an ordered subset `modes` of a generic d-mode state
    vector (pure) / density matrix (mixed): equals the definition through permanents of the
    embedded matrix, amplitude by amplitude."""
    modes = tuple(modes)
    k = len(modes)
    conn = cm.connector(env)
    cfg = cm.config(env, cutoff=cutoff)
    M = env.cplx_mat("g", k)
    b = fc.basis(d, cutoff)
    E = fc.embed_matrix(env, M, modes, d)
    # oracle operator on the truncated space (exact on every represented sector: number conserving)
    W = env._arr([[fc.fock_element(env, E, out, inp) for inp in b] for out in b])
    env.functions += [core.fn_ref(fsteps.nb_calculate_index_list_for_appling_interferometer), core.fn_ref(ppl._do_apply_passive_linear),
                      core.fn_ref(ppl._calculate_state_vector_after_interferometer), core.fn_ref(np_interf.calculate_interferometer_on_fock_space)]
    idx_fn = fsteps.nb_calculate_index_list_for_appling_interferometer
    index_list = idx_fn(modes, d, cutoff)
    reps = _representations(env, M, k, cutoff, "numpy")
    if sim == "pure":
        psi, _ = fc.generic_state_vector(env, d, cutoff)
        new = ppl._calculate_state_vector_after_interferometer(psi, reps, index_list, conn)
        env.equal("state vector", new, W @ psi)
    else:
        rho = env.cplx_mat("r", len(b))
        fn = gsteps._calculate_density_matrix_after_interferometer
        env.functions.append(core.fn_ref(fn))
        with cm.patched_np(env, gsteps):
            new = fn(rho, reps, index_list)
        env.equal("density matrix", new, W @ rho @ cm.dagger(env, W))


def h_kerr(env, d, cutoff, mode, kind):
    """Kerr / CrossKerr: pure, mixed and passive simulators apply the same diagonal phases."""
    conn = cm.connector(env)
    cfg = cm.config(env, cutoff=cutoff)
    xi = env.param("xi")
    b = fc.basis(d, cutoff)
    psi, _ = fc.generic_state_vector(env, d, cutoff)
    st = PureFockState(d=d, connector=conn, config=cfg)
    st.state_vector = psi.copy()
    if kind == "Kerr":
        inst = pq.Kerr(xi=xi).on_modes(mode)
        step, gstep = psteps.kerr, gsteps.kerr
        expo = [v[mode] * v[mode] for v in b]
    else:
        inst = pq.CrossKerr(xi=xi).on_modes(mode, (mode + 1) % d)
        step, gstep = psteps.cross_kerr, gsteps.cross_kerr
        expo = [v[mode] * v[(mode + 1) % d] for v in b]
    env.functions += [core.fn_ref(step), core.fn_ref(gstep)]
    with cm.patched_np(env, psteps, gsteps):
        new = step(st, inst, None)[0].state.state_vector
        phases = env._arr([env.np.exp(1j * xi * e) for e in expo])
        env.equal("pure: diag phases exp(i xi n^2 | n m)", new, phases * psi)
        rho = env.cplx_mat("r", len(b))
        mst = FockState(d=d, connector=conn, config=cfg)
        mst._density_matrix = rho.copy()
        newr = gstep(mst, inst, None)[0].state._density_matrix
        env.equal("mixed: D rho D^+", newr, env.np.outer(phases, env.np.conj(phases)) * rho)


def _oracle_operator(env, M, modes, d, b):
    E = fc.embed_matrix(env, M, tuple(modes), d)
    return env._arr([[fc.fock_element(env, E, out, inp) for inp in b] for out in b])


def h_apply_sequence(env, d, cutoff, modes_list):
    """several gates in ONE process through the real (cached) application path of the pure Fock
    simulator - the same mode set addressed in different orders - equal the product of the definitions."""
    conn = cm.connector(env)
    b = fc.basis(d, cutoff)
    psi, _ = fc.generic_state_vector(env, d, cutoff)
    env.functions += [core.fn_ref(ppl._do_apply_passive_linear), core.fn_ref(ppl._apply_passive_gate_matrix_to_state),
                      core.fn_ref(fsteps.nb_calculate_index_list_for_appling_interferometer), core.fn_ref(ppl._get_interferometer_on_fock_space)]
    cur_, want = psi, psi
    for j, modes in enumerate(modes_list):
        modes = tuple(modes)
        M = env.cplx_mat("g%d" % j, len(modes))
        cur_ = ppl._do_apply_passive_linear(cur_, M, d, cutoff, modes, conn)
        want = _oracle_operator(env, M, modes, d, b) @ want
    env.equal("state vector after the sequence", cur_, want)


def h_bs5050(env, d, cutoff, modes):
    """the closed-form Beamsplitter5050 path of the pure Fock simulator equals the definition for the
    documented matrix [[1,-1],[1,1]]/sqrt(2) on the given ordered modes."""
    modes = tuple(modes)
    conn = cm.connector(env)
    cfg = cm.config(env, cutoff=cutoff)
    b = fc.basis(d, cutoff)
    psi, _ = fc.generic_state_vector(env, d, cutoff)
    st = PureFockState(d=d, connector=conn, config=cfg)
    st.state_vector = psi.copy()
    env.functions += [core.fn_ref(ppl.beamsplitter5050), core.fn_ref(ppl._apply_beamsplitter5050), core.fn_ref(ppl._beamsplitter5050_coeff)]
    new = ppl.beamsplitter5050(st, pq.Beamsplitter5050().on_modes(*modes), None)[0].state.state_vector
    r = 1 / env.np.sqrt(2)
    U = env._arr([[r, -r], [r, r]]) if env.mode == "sym" else numpy.array([[1, -1], [1, 1]]) / numpy.sqrt(2)
    env.equal("state vector", new, _oracle_operator(env, U, modes, d, b) @ psi)


HARNESSES = {"representation": h_representation, "apply_on_modes": h_apply_on_modes, "kerr": h_kerr, "apply_sequence": h_apply_sequence, "bs5050": h_bs5050}


def instances(tier, seed):
    out = []
    dn = [(1, 2), (2, 1), (2, 2), (2, 3), (3, 2)] if tier == "quick" else [(1, 3), (2, 2), (2, 3), (2, 4), (3, 2), (3, 3), (4, 2)]
    for d, n in dn:
        for which in ("numpy", "generic"):
            out.append(("representation", {"d": d, "n": n, "which": which}))
    cfgs = [(2, 2), (2, 3), (3, 2), (3, 3)] if tier == "quick" else [(2, 3), (2, 4), (3, 3), (3, 4), (4, 3)]
    for d, c in cfgs:
        for k in (1, 2):
            subs = cm.ordered_subsets(d, k)
            if d >= 3 and k == 2 and tier == "quick":
                subs = [(2, 0), (1, 2), (0, 1)]
            if d >= 4:
                subs = subs[::3]
            for m in subs:
                out.append(("apply_on_modes", {"d": d, "cutoff": c, "modes": list(m), "sim": "pure"}))
                if c <= 3 and d <= 3 and (tier == "thorough" or (d, c) != (3, 3)):
                    out.append(("apply_on_modes", {"d": d, "cutoff": c, "modes": list(m), "sim": "mixed"}))
    seqs = [(2, 3, [[0, 1], [1, 0]]), (3, 2, [[2, 0], [0, 2], [1]]), (3, 3, [[1, 2], [2, 1]])]
    if tier == "thorough":
        seqs += [(3, 3, [[0, 2], [2, 0], [0, 2]]), (2, 4, [[1, 0], [0, 1]]), (4, 2, [[3, 1], [1, 3], [0, 2]])]
    for d, c, ml in seqs:
        out.append(("apply_sequence", {"d": d, "cutoff": c, "modes_list": ml}))
    for d, c, m in [(2, 3, (0, 1)), (2, 3, (1, 0)), (3, 2, (2, 0)), (3, 3, (1, 0))] + ([(3, 3, (0, 2)), (2, 4, (1, 0))] if tier == "thorough" else []):
        out.append(("bs5050", {"d": d, "cutoff": c, "modes": list(m)}))
    for d, c in [(1, 3), (2, 3)] if tier == "quick" else [(1, 4), (2, 3), (3, 3)]:
        for mode in range(d):
            out.append(("kerr", {"d": d, "cutoff": c, "mode": mode, "kind": "Kerr"}))
            if d >= 2:
                out.append(("kerr", {"d": d, "cutoff": c, "mode": mode, "kind": "CrossKerr"}))
    return out


EXPLANATION = (
    "Bounded symbolic verification of the number-conserving sector shared by the pure-Fock, mixed-Fock and passive simulators: the real recursion that "
    "builds the Fock-space representation of an interferometer (numba kernel's Python source and the connector-generic einsum version), the SLOS state "
    "vector of the passive simulator, the index tables for applying a gate on an ordered mode subset and the state-vector / density-matrix updates are "
    "executed on a GENERIC complex matrix and generic amplitudes; z3 decides that all of them equal the permanent definition entry by entry (so they agree "
    "with each other for every matrix, unitary or not, every mode order and every cutoff in the bound). Kerr-type gates: same diagonal phases on pure and mixed states."
)


def run(rep, tier, seed, opts):
    inst = instances(tier, seed)
    if opts.get("only"):
        inst = [i for i in inst if opts["only"] in i[0] or opts["only"] in str(i[1])]
    rep.bounds = {"representation (d, n)": "up to (3,2)/(2,3) quick, (3,3)/(4,2) thorough", "apply_on_modes": "d<=3 cutoff<=3 (thorough d<=4, cutoff<=4), all ordered mode subsets",
                  "outside": "Gaussian <-> Fock agreement for active gates (hafnian / Hermite kernels, Euler decomposition through LAPACK), attenuation channel, float rounding"}
    o = {"timeout_s": 60 if tier == "quick" else 300, "instance_timeout_s": 600 if tier == "quick" else 2400, "seed": seed, "validation_points": 1}
    for r in core.run_instances(__name__, inst, o, jobs=opts.get("jobs")):
        rep.add_instance_result(__name__, r)
    return rep.finish(level="other", explanation=EXPLANATION)
