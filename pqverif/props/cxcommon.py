"""shared by C04 / C11: the native permanent (src/permanent.cpp) on the E-CX interpreter and its compiled twin"""
import atexit
import itertools
import os

import numpy

from .. import cx, xa, si, core

REPO = os.environ.get("VERIF_REPO", "/repo")

_PROG = {}
_NATIVE = {}

PERM_MAIN = r'''
int main() {
    unsigned int hc; int n, m; char mode;
    if (scanf(" %c %u %d %d", &mode, &hc, &n, &m) != 4) return 2;
    pqverif_hc = hc;
    Vector<int> rows(n), cols(m);
    for (int i = 0; i < n; i++) scanf("%d", &rows[i]);
    for (int j = 0; j < m; j++) scanf("%d", &cols[j]);
    Matrix<std::complex<double>> A(n, m);
    for (int i = 0; i < n * m; i++) { double re, im; scanf("%lf %lf", &re, &im); A[i] = std::complex<double>(re, im); }
    std::complex<double> *abuf = A.data; int *rbuf = rows.data, *cbuf = cols.data;
    try {
        if (mode == 'L') {
            Vector<std::complex<double>> v = permanent_laplace_cpp<double>(A, rows, cols);
            for (size_t i = 0; i < v.size(); i++) printf("%.17g %.17g\n", v[i].real(), v[i].imag());
        } else {
            std::complex<double> p = permanent_cpp<double>(A, rows, cols);
            printf("%.17g %.17g\n", p.real(), p.imag());
        }
    } catch (std::string &e) { printf("throw\n"); }
    printf("after");
    for (int i = 0; i < n * m; i++) printf(" %.17g %.17g", abuf[i].real(), abuf[i].imag());
    for (int i = 0; i < n; i++) printf(" %d", rbuf[i]);
    for (int j = 0; j < m; j++) printf(" %d", cbuf[j]);
    printf("\n");
    return 0;
}
'''


PFAFF_MAIN = r'''
int main() {
    int n;
    if (scanf("%d", &n) != 1) return 2;
    Matrix<double> A(n, n);
    for (int i = 0; i < n * n; i++) { double x; scanf("%lf", &x); A[i] = x; }
    double p = pfaffian_cpp<double>(A);
    printf("%.17g\n", p);
    for (int i = 0; i < n * n; i++) printf("%.17g ", A[i]);
    printf("\n");
    return 0;
}
'''


REDUCE_MAIN = r'''
int main() {
    size_t modes, k;
    if (scanf("%zu %zu", &modes, &k) != 2) return 2;
    std::vector<size_t> holes(k);
    for (size_t i = 0; i < k; i++) scanf("%zu", &holes[i]);
    std::vector<size_t> r = calculate_reduce_indices(holes, modes);
    for (size_t i = 0; i < r.size(); i++) printf("%zu ", r[i]);
    printf("\n");
    return 0;
}
'''


def program(which="permanent"):
    """AST of the current /repo source (one clang run per filter, cached per process)"""
    if which not in _PROG:
        p = cx.Program(REPO)
        src = {"permanent": "src/permanent.cpp", "laplace": "src/permanent_laplace.cpp", "pfaffian": "src/pfaffian.cpp", "reduce": "src/torontonian_common.cpp"}[which]
        if which == "pfaffian":
            p.add(src, "pfaffian_cpp")
        elif which == "reduce":
            p.add(src, "calculate_reduce_indices")
        else:
            for f in ({"permanent": "permanent_cpp", "laplace": "permanent_laplace_cpp"}[which], "binomialCoeff", "n_aryGrayCodeCounter"):
                p.add(src, f)
        _PROG[which] = p
    return _PROG[which]


def native(which="permanent"):
    if which not in _NATIVE:
        if which == "pfaffian":
            nat = cx.Native(REPO, ["src/pfaffian.cpp"], PFAFF_MAIN, which)
        elif which == "reduce":
            nat = cx.Native(REPO, ["src/torontonian_common.cpp"], "#include <vector>\n" + REDUCE_MAIN, which)
        else:
            nat = cx.Native(REPO, ["src/permanent.cpp", "src/permanent_laplace.cpp"], PERM_MAIN, which)
        _NATIVE[which] = nat
        pid = os.getpid()
        atexit.register(lambda: nat.close() if os.getpid() == pid else None)
    return _NATIVE[which]


def fn_refs(prog, names):
    out = []
    extra = ["src/matrix.hpp"] if ("src/pfaffian.cpp" in prog.sources or "src/torontonian_common.cpp" in prog.sources) else ["src/n_aryGrayCodeCounter.hpp", "src/utils.hpp", "src/matrix.hpp"]
    for rel in sorted(prog.sources) + extra:
        out.append(core.file_ref(os.path.join(REPO, rel), names))
    return out


def native_permanent(A, rows, cols, hc, mode="P"):
    """(value or None if the kernel threw, undefined-behaviour report or ''); mode 'L': list of Laplace sub-permanents"""
    A = numpy.asarray(A, dtype=complex)
    n, m = A.shape
    txt = "%s %d %d %d\n%s\n%s\n%s\n" % (mode, hc, n, m, " ".join(str(int(r)) for r in rows), " ".join(str(int(c)) for c in cols),
                                      " ".join("%r %r" % (float(z.real), float(z.imag)) for z in A.flatten()))
    code, out, err = native().run(txt)
    ub = ""
    if "runtime error" in err or code not in (0,):
        ub = (err.strip().splitlines() or ["exit code %d" % code])[0][-200:]
    val = None
    if "after" in out:
        out, aft = out.split("after", 1)
        a = aft.split()
        LAST["perm_after"] = ([complex(float(a[2 * i]), float(a[2 * i + 1])) for i in range(n * m)], [int(x) for x in a[2 * n * m:2 * n * m + n]], [int(x) for x in a[2 * n * m + n:]])
    toks = out.split()
    if mode == "L":
        if toks and toks[0] != "throw" and len(toks) % 2 == 0:
            val = [complex(float(toks[2 * i]), float(toks[2 * i + 1])) for i in range(len(toks) // 2)]
    elif len(toks) == 2:
        val = complex(float(toks[0]), float(toks[1]))
    return val, ub


def native_reduce(holes, modes):
    code, out, err = native("reduce").run("%d %d\n%s\n" % (modes, len(holes), " ".join(str(int(h)) for h in holes)))
    ub = ""
    if "runtime error" in err or "Assertion" in err or code != 0:
        ub = (err.strip().splitlines() or ["exit code %d" % code])[0][-200:]
    return [int(t) for t in out.split()], ub


def native_pfaffian(M):
    M = numpy.asarray(M, dtype=float)
    n = M.shape[0]
    code, out, err = native("pfaffian").run("%d\n%s\n" % (n, " ".join(repr(float(x)) for x in M.flatten())))
    ub = ""
    if "runtime error" in err or code != 0:
        ub = (err.strip().splitlines() or ["exit code %d" % code])[0][-200:]
    toks = out.split()
    LAST["pfaffian_after"] = [float(t) for t in toks[1:]]
    return (float(toks[0]) if toks else None), ub


LAST = {}


def interp_pfaffian(env, M):
    prog = program("pfaffian")
    fn = prog.find(None, "pfaffian_cpp", 1, pick="double (Matrix<double>")
    if fn is None:
        raise xa.HarnessError("pfaffian_cpp<double> not found in src/pfaffian.cpp")
    it = cx.Interp(prog, env)
    n = M.shape[0]
    Am = cx.Mat(n, n, cx.Ptr([M[i, j] for i in range(n) for j in range(n)]))
    v = it.call(fn, [cx.Ref([Am], 0)])
    return v, it.ub_events


def pfaffian_definition(M, idx=None):
    """expansion along the first remaining row: sum over perfect matchings with the sign of the pairing"""
    idx = list(range(M.shape[0])) if idx is None else idx
    if not idx:
        return 1
    i = idx[0]
    total = 0
    for pos in range(1, len(idx)):
        j = idx[pos]
        rest = idx[1:pos] + idx[pos + 1:]
        term = M[i, j] * pfaffian_definition(M, rest)
        total = total + term if pos % 2 == 1 else total - term
    return total


def interp_laplace(env, A, rows, cols, hc, prog=None):
    prog = prog or program("laplace")
    fn = prog.find(None, "permanent_laplace_cpp", 3, pick="complex<double>")
    if fn is None:
        raise xa.HarnessError("permanent_laplace_cpp<double> not found in src/permanent_laplace.cpp")
    it = cx.Interp(prog, env, hardware_concurrency=hc)
    n, m = A.shape
    Am = cx.Mat(n, m, cx.Ptr([A[i, j] for i in range(n) for j in range(m)]))
    R = cx.Mat(1, len(rows), cx.Ptr(list(rows)), True)
    C = cx.Mat(1, len(cols), cx.Ptr(list(cols)), True)
    v = it.call(fn, [cx.Ref([Am], 0), cx.Ref([R], 0), cx.Ref([C], 0)])
    d = v.f["data"]
    return [it.index(d, i).get() for i in range(v.f["length"])], it.ub_events


def interp_permanent(env, A, rows, cols, hc, prog=None):
    """permanent_cpp<double> interpreted from its AST; returns (value, undefined-behaviour events)"""
    prog = prog or program()
    fn = prog.find(None, "permanent_cpp", 3, pick="complex<double>")
    if fn is None:
        raise xa.HarnessError("permanent_cpp<double> not found in src/permanent.cpp")
    it = cx.Interp(prog, env, hardware_concurrency=hc)
    n, m = A.shape
    Am = cx.Mat(n, m, cx.Ptr([A[i, j] for i in range(n) for j in range(m)]))
    R = cx.Mat(1, len(rows), cx.Ptr(list(rows)), True)
    C = cx.Mat(1, len(cols), cx.Ptr(list(cols)), True)
    v = it.call(fn, [cx.Ref([Am], 0), cx.Ref([R], 0), cx.Ref([C], 0)])
    return v, it.ub_events


def permanent_definition(A, rows, cols):
    """sum over permutations of the matrix with row i repeated rows[i] times and column j repeated cols[j] times"""
    ri = [i for i, r in enumerate(rows) for _ in range(r)]
    ci = [j for j, c in enumerate(cols) for _ in range(c)]
    n = len(ri)
    total = 0
    for perm in itertools.permutations(range(n)):
        t = 1
        for a in range(n):
            t = t * A[ri[a], ci[perm[a]]]
        total = total + t
    return total


def find_nodes(n, pred, out=None):
    out = [] if out is None else out
    if isinstance(n, dict):
        if pred(n):
            out.append(n)
        for c in n.get("inner", []) or []:
            find_nodes(c, pred, out)
    return out
