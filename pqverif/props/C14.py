"""C14 - Gaussian states are hbar-invariant and representation-consistent (E-XA)."""
import math
import itertools

import numpy

import piquasso as pq
from piquasso._simulators.gaussian import state as gstate
from piquasso._simulators.gaussian.state import GaussianState
from piquasso._simulators.gaussian import simulation_steps as gs
from piquasso._math import transformations as mtrans

from .. import xa, core
from . import common as cm


def _state(env, d, hbar, name="s", displaced=True):
    conn = cm.connector(env)
    cfg = cm.config(env, hbar=hbar, validate=False)
    return cm.generic_gaussian_state(env, d, cfg, name=name, displaced=displaced, conn=conn)


def _same_moments(env, s, hbar):
    """a second state object with the same ladder moments but another hbar"""
    cfg = cm.config(env, hbar=hbar, validate=False)
    return GaussianState._from_representation(m=s._m.copy(), G=s._G.copy(), C=s._C.copy(), config=cfg, connector=s._connector)


def _fns(env, *names):
    for n in names:
        env.functions.append(core.fn_ref(getattr(GaussianState, n)))
    env.stubs.append("connector.np / module-global np of gaussian/state.py -> pqverif numpy facade; Config(validate=False): the eigenvalue-based "
                     "validators (LAPACK) are outside the claim")


def _W(env, d):
    np = env.np
    I = np.identity(d)
    s = 1 / np.sqrt(2)
    return np.block([[I * s, 1j * I * s], [I * s, -1j * I * s]])


def h_getset(env, d, basis):
    """setter(getter(state)) reproduces the ladder moments (getter then setter = identity)."""
    hbar = env.pos("hbar")
    s = _state(env, d, hbar)
    _fns(env, basis + "_mean_vector", basis + "_covariance_matrix")
    with cm.patched_np(env, gstate):
        t = GaussianState(d=d, connector=s._connector, config=s._config)
        setattr(t, basis + "_covariance_matrix", getattr(s, basis + "_covariance_matrix"))
        setattr(t, basis + "_mean_vector", getattr(s, basis + "_mean_vector"))
    env.equal("m", t._m, s._m)
    env.equal("C", t._C, s._C)
    env.equal("G", t._G, s._G)


def h_setget(env, d, basis):
    """getter(setter(mu, sigma)) == (mu, sigma) for generic real mean and symmetric covariance."""
    hbar = env.pos("hbar")
    conn = cm.connector(env)
    cfg = cm.config(env, hbar=hbar, validate=False)
    mu = env.real_vec("mu", 2 * d)
    sig = env.sym_real_mat("sg", 2 * d)
    _fns(env, basis + "_mean_vector", basis + "_covariance_matrix")
    with cm.patched_np(env, gstate):
        t = GaussianState(d=d, connector=conn, config=cfg)
        setattr(t, basis + "_covariance_matrix", sig)
        setattr(t, basis + "_mean_vector", mu)
        mu2 = getattr(t, basis + "_mean_vector")
        sig2 = getattr(t, basis + "_covariance_matrix")
    env.equal("mean", mu2, mu)
    env.equal("cov", sig2, sig)
    env.equal("C=C^+", t._C, cm.dagger(env, t._C))
    env.equal("G=G^T", t._G, t._G.T)


def h_representations(env, d):
    """xpxp is the documented permutation of xxpp; the complex representation is W(.)/sqrt(hbar)
    resp. W sigma W^+ / hbar; correlation = covariance + 2 mu mu^T; Q = (sigma_c + I)/2."""
    np = env.np
    hbar = env.pos("hbar")
    s = _state(env, d, hbar)
    _fns(env, "xxpp_mean_vector", "xxpp_covariance_matrix", "xpxp_mean_vector", "xpxp_covariance_matrix", "complex_displacement",
         "complex_covariance", "xxpp_correlation_matrix", "xpxp_correlation_matrix", "Q_matrix")
    env.functions += [core.fn_ref(mtrans.xxpp_to_xpxp_indices), core.fn_ref(mtrans.xpxp_to_xxpp_indices)]
    with cm.patched_np(env, gstate):
        mu = s.xxpp_mean_vector
        sg = s.xxpp_covariance_matrix
        mu2 = s.xpxp_mean_vector
        sg2 = s.xpxp_covariance_matrix
        muc = s.complex_displacement
        sgc = s.complex_covariance
        cor = s.xxpp_correlation_matrix
        cor2 = s.xpxp_correlation_matrix
        Q = s.Q_matrix
    perm = [i // 2 + (i % 2) * d for i in range(2 * d)]     # xpxp index -> xxpp index
    env.equal("xpxp mean", mu2, mu[perm])
    env.equal("xpxp cov", sg2, sg[numpy.ix_(perm, perm)])
    W = _W(env, d)
    rt = np.sqrt(hbar)
    env.equal("complex displacement * sqrt(hbar)", muc * rt, W @ mu)
    env.equal("complex covariance * hbar", sgc * hbar, W @ sg @ cm.dagger(env, W))
    env.equal("xxpp correlation", cor, sg + 2 * np.outer(mu, mu))
    env.equal("xpxp correlation", cor2, sg2 + 2 * np.outer(mu2, mu2))
    env.equal("Q", 2 * Q, sgc + np.identity(2 * d))
    env.equal("cov symmetric", sg, sg.T)
    env.equal("cov real", sg.imag, 0 * sg.real)


def h_reduced_rotated(env, d, modes):
    """reduction and rotation commute with the representation maps."""
    np = env.np
    modes = tuple(modes)
    k = len(modes)
    hbar = env.pos("hbar")
    phi = env.param("phi")
    s = _state(env, d, hbar)
    _fns(env, "reduced", "rotated", "xpxp_reduced_rotated_mean_and_covariance", "xpxp_mean_vector", "xpxp_covariance_matrix")
    with cm.patched_np(env, gstate):
        mu = s.xpxp_mean_vector
        sg = s.xpxp_covariance_matrix
        rmu, rsg = s.xpxp_reduced_rotated_mean_and_covariance(modes, phi)
        red = s.reduced(modes)
        red_mu, red_sg = red.xpxp_mean_vector, red.xpxp_covariance_matrix
    idx = [j for m in modes for j in (2 * m, 2 * m + 1)]
    env.equal("reduced mean", red_mu, mu[idx])
    env.equal("reduced cov", red_sg, sg[numpy.ix_(idx, idx)])
    c, sn = np.cos(phi), np.sin(phi)
    R = np.zeros((2 * k, 2 * k)) if env.mode == "num" else xa.xnp.zeros((2 * k, 2 * k))
    for i in range(k):
        R[2 * i, 2 * i] = c
        R[2 * i, 2 * i + 1] = sn
        R[2 * i + 1, 2 * i] = -sn
        R[2 * i + 1, 2 * i + 1] = c
    env.equal("rotated mean", rmu, R @ mu[idx])
    env.equal("rotated cov", rsg, R @ sg[numpy.ix_(idx, idx)] @ R.T)


def h_hbar_scaling(env, d):
    """quadrature means scale with sqrt(hbar), covariances with hbar (same ladder moments)."""
    np = env.np
    hbar = env.pos("hbar")
    s = _state(env, d, hbar)
    t = _same_moments(env, s, 2.0)
    _fns(env, "xxpp_mean_vector", "xxpp_covariance_matrix", "xpxp_mean_vector", "xpxp_covariance_matrix")
    with cm.patched_np(env, gstate):
        a = (s.xxpp_mean_vector, s.xxpp_covariance_matrix, s.xpxp_mean_vector, s.xpxp_covariance_matrix)
        b = (t.xxpp_mean_vector, t.xxpp_covariance_matrix, t.xpxp_mean_vector, t.xpxp_covariance_matrix)
    rt = np.sqrt(hbar / 2)
    env.equal("xxpp mean", a[0], b[0] * rt)
    env.equal("xxpp cov", a[1], b[1] * (hbar / 2))
    env.equal("xpxp mean", a[2], b[2] * rt)
    env.equal("xpxp cov", a[3], b[3] * (hbar / 2))


OBSERVABLES = ("fidelity", "purity", "mean_photon_number", "variance_photon_number", "parity", "xp_string", "ladder_string",
               "threshold_inputs", "density_inputs", "quadratic_polynomial")


def _observe(env, st, obs, d, extra):
    np = env.np
    if obs == "purity":
        return [("purity", st.get_purity())]
    if obs == "fidelity":
        # the arguments handed to eigvals / det / exp (LAPACK and transcendental calls) must not depend on hbar;
        # the result is a function of those values only
        mod = xa.xnp if env.mode == "sym" else numpy
        cap = []
        saved = (mod.linalg.eigvals, mod.linalg.det, mod.exp)

        def wrap(tag, f):
            def g(a, *aa, **kk):
                cap.append((tag, a))
                return f(a, *aa, **kk)
            return g
        try:
            mod.linalg.eigvals = wrap("eigvals arg", saved[0])
            mod.linalg.det = wrap("det arg", saved[1])
            mod.exp = wrap("exp arg", saved[2])
            st.fidelity(extra["other"][id(st._config)])
        finally:
            if env.mode == "sym":
                del mod.linalg.eigvals, mod.linalg.det, mod.exp      # instance attributes shadowing the class methods
            else:
                mod.linalg.eigvals, mod.linalg.det, mod.exp = saved
        return [("%s #%d" % (tag, i), a) for i, (tag, a) in enumerate(cap)]
    if obs == "mean_photon_number":
        return [("nbar", st.mean_photon_number()), ("nbar(0,)", st.mean_photon_number((0,)))]
    if obs == "variance_photon_number":
        return [("var n", st.variance_photon_number())]
    if obs == "parity":
        return [("parity", st.get_parity_operator_expectation_value())]
    if obs == "xp_string":
        out = []
        hb = st._config.hbar
        for string in extra["strings"]:
            v = st.get_xp_string_moment(list(string))
            # dimensionless: divide by (hbar/2)^(len/2); only even lengths are used
            k = len(string) // 2
            out.append(("xp%s/(hbar/2)^%d" % (list(string), k), v * ((2 / hb) ** k if env.mode == "num" else (2 * env.const(1) / hb) ** k)))
        return out
    if obs == "ladder_string":
        return [("ladder%s" % (list(s_),), st.get_ladder_string_moment(list(s_))) for s_ in extra["strings"]]
    if obs == "threshold_inputs":
        cap = []
        saved = (gstate.calculate_click_probability_nondisplaced, gstate.calculate_click_probability)
        gstate.calculate_click_probability_nondisplaced = lambda cov, occ: cap.append(("nondisp", cov, None)) or 0.5
        gstate.calculate_click_probability = lambda cov, mean, occ: cap.append(("disp", cov, mean)) or 0.5
        try:
            st.get_threshold_detection_probability((1,) * d)
        finally:
            gstate.calculate_click_probability_nondisplaced, gstate.calculate_click_probability = saved
        kind, cov, mean = cap[0]
        out = [("kernel cov", cov)]
        if mean is not None:
            out.append(("kernel mean", mean))
        return out
    if obs == "pnm_sampling_inputs":
        # Gaussian particle-number sampling: the covariance handed to the Williamson decomposition and the mean handed to the
        # sample generator (everything downstream is a function of these) must not depend on hbar
        cap = {}
        saved = (gs.williamson, gs._generate_sample)

        def will_stub(cov, connector):
            cap["cov"] = cov
            n = numpy.asarray(cov, dtype=object).shape[0]
            return numpy.identity(n), numpy.identity(n)

        def gen_stub(*a, **k):
            cap["mean"] = k["mean"]
            return numpy.zeros(d, dtype=int)
        gs.williamson, gs._generate_sample = will_stub, gen_stub
        try:
            with cm.patched_np(env, gs):
                gs._get_particle_number_measurement_samples(st, pq.ParticleNumberMeasurement().on_modes(*range(d)), 1)
        finally:
            gs.williamson, gs._generate_sample = saved
        return [("covariance handed to williamson", cap["cov"]), ("mean handed to the sample generator", cap["mean"])]
    if obs == "density_inputs":
        calc = st._get_density_matrix_calculation()
        out = [("A", calc._A if hasattr(calc, "_A") else calc.A)] if (hasattr(calc, "_A") or hasattr(calc, "A")) else []
        for nm in sorted(vars(calc)):
            v = getattr(calc, nm)
            if isinstance(v, numpy.ndarray) or isinstance(v, (xa.SC, float, complex)):
                out.append(("calc." + nm, v))
        return out
    if obs == "quadratic_polynomial":
        A, b, hb = extra["A"], extra["b"], st._config.hbar
        # f(R) with R -> R / sqrt(hbar/2) is dimensionless
        v = st.quadratic_polynomial_expectation(A, b, 0.0, 0.0)
        v2 = st.quadratic_polynomial_expectation(A, 0 * b, 0.0, 0.0)
        return [("E[R^T A R]/(hbar/2)", v2 * (2 / hb)), ("E[R.b]^2/(hbar/2)", (v - v2) * (v - v2) * (2 / hb))]
    raise KeyError(obs)


def h_hbar_invariance(env, obs, d, displaced=True):
    """a dimensionless observable of a state with fixed ladder moments does not depend on hbar."""
    hbar = env.pos("hbar")
    s = _state(env, d, hbar, displaced=displaced)
    t = _same_moments(env, s, 2.0)
    extra = {}
    if obs in ("xp_string", "ladder_string"):
        extra["strings"] = [(0, d), (d, 0), (0, 0)] + ([(0, d, d, 0), (0, 1, d + 1, d)] if d > 1 else [(0, d, d, 0)])
    if obs == "fidelity":
        o = _state(env, d, hbar, name="t", displaced=displaced)
        extra["other"] = {id(s._config): o, id(t._config): _same_moments(env, o, 2.0)}
        extra["other"][id(t._config)]._config = t._config
    if obs == "quadratic_polynomial":
        extra["A"] = env.sym_real_mat("qA", 2 * d)
        extra["b"] = env.real_vec("qb", 2 * d)
    fn = {"purity": "get_purity", "parity": "get_parity_operator_expectation_value", "xp_string": "get_xp_string_moment",
          "ladder_string": "get_ladder_string_moment", "threshold_inputs": "get_threshold_detection_probability",
          "density_inputs": "_get_density_matrix_calculation", "quadratic_polynomial": "quadratic_polynomial_expectation",
          "pnm_sampling_inputs": "reduced"}.get(obs, obs)
    if obs == "pnm_sampling_inputs":
        env.functions.append(core.fn_ref(gs._get_particle_number_measurement_samples))
        env.stubs.append("williamson (LAPACK) and _generate_sample (loop hafnian, RNG) replaced by capture stubs: the obligation is that their inputs do not depend on hbar")
    _fns(env, fn, "xxpp_covariance_matrix", "xxpp_mean_vector", "complex_covariance", "complex_displacement")
    if obs == "threshold_inputs":
        env.stubs.append("calculate_click_probability(_nondisplaced) (C++ torontonian) replaced by a capture stub: the obligation is that the "
                         "arguments handed to the kernel do not depend on hbar")
    with cm.patched_np(env, gstate):
        a = _observe(env, s, obs, d, extra)
        b = _observe(env, t, obs, d, extra)
    for (n1, v1), (n2, v2) in zip(a, b):
        env.equal(n1, v1, v2)


def h_preparation(env, d, kind):
    """Mean / Covariance preparation steps: the dimensionless parameter is scaled by sqrt(hbar) / hbar
    (as documented) and read back by the getters, for any hbar."""
    hbar = env.pos("hbar")
    conn = cm.connector(env)
    cfg = cm.config(env, hbar=hbar, validate=False)
    st = GaussianState(d=d, connector=conn, config=cfg)
    env.functions += [core.fn_ref(gs.mean), core.fn_ref(gs.covariance)]
    with cm.patched_np(env, gstate, gs):
        if kind == "Mean":
            mu = env.real_vec("mu", 2 * d)
            inst = pq.Mean(mu)
            st2 = gs.mean(st, inst, None)[0].state
            env.equal("mean = sqrt(hbar) * parameter", st2.xpxp_mean_vector, mu * env.np.sqrt(hbar))
        else:
            sig = env.sym_real_mat("sg", 2 * d)
            inst = pq.Covariance(sig)
            st2 = gs.covariance(st, inst, None)[0].state
            env.equal("cov = hbar * parameter", st2.xpxp_covariance_matrix, sig * hbar)


def _physical_sampler(rng, d, displaced=True, **kw):
    v = cm.sample_physical_state(rng, d, "s", displaced=displaced)
    if kw.get("obs") == "fidelity":
        v.update(cm.sample_physical_state(rng, d, "t", displaced=displaced))
    return v


for _h in (h_getset, h_representations, h_reduced_rotated, h_hbar_scaling, h_hbar_invariance):
    _h.sampler = _physical_sampler

HARNESSES = {
    "getset": h_getset, "setget": h_setget, "representations": h_representations, "reduced_rotated": h_reduced_rotated,
    "hbar_scaling": h_hbar_scaling, "hbar_invariance": h_hbar_invariance, "preparation": h_preparation,
}


def instances(tier, seed):
    out = []
    ds = (1, 2) if tier == "quick" else (1, 2, 3)
    for d in ds:
        for basis in ("xpxp", "xxpp"):
            out.append(("getset", {"d": d, "basis": basis}))
            out.append(("setget", {"d": d, "basis": basis}))
        out.append(("representations", {"d": d}))
        out.append(("hbar_scaling", {"d": d}))
        for kind in ("Mean", "Covariance"):
            out.append(("preparation", {"d": d, "kind": kind}))
    for d in ds:
        for k in range(1, d + 1):
            for modes in itertools.permutations(range(d), k):
                out.append(("reduced_rotated", {"d": d, "modes": list(modes)}))
    for obs in OBSERVABLES:
        for d in ((1,) if obs in ("purity", "parity", "fidelity") and (tier == "quick" or obs == "fidelity") else (1, 2)):
            out.append(("hbar_invariance", {"obs": obs, "d": d}))
    out.append(("hbar_invariance", {"obs": "purity", "d": 1, "displaced": False}))
    out.append(("hbar_invariance", {"obs": "threshold_inputs", "d": 2, "displaced": False}))
    for d in (1, 2):
        out.append(("hbar_invariance", {"obs": "pnm_sampling_inputs", "d": d}))
    return out


EXPLANATION = (
    "Bounded symbolic verification of GaussianState's representation maps and hbar bookkeeping: the real getters/setters/observables are executed "
    "on a fully generic ladder-moment state (m complex, C Hermitian, G symmetric) with symbolic hbar>0; z3 decides entrywise equality with the "
    "oracle (round trips, documented W-transform, rotation/reduction on the xpxp representation, and equality of every dimensionless observable "
    "with its value at hbar=2). sqrt/det/inverse/exp are algebraic or uninterpreted atoms with congruence axioms."
)


def run(rep, tier, seed, opts):
    inst = instances(tier, seed)
    if opts.get("only"):
        inst = [i for i in inst if opts["only"] in i[0] or opts["only"] in str(i[1])]
    rep.bounds = {"d": "1..2 (quick) / 1..3 (thorough); observables d<=2", "hbar": "all hbar>0", "state": "generic (m, C=C^+, G=G^T)",
                  "outside": "fidelity for d>1 (d=1 through a contract stub of eigvals), Wigner function, density-matrix entries themselves (C04 kernels), validators' eigenvalue logic, d>3"}
    o = {"timeout_s": 60 if tier == "quick" else 300, "instance_timeout_s": 300 if tier == "quick" else 1500, "seed": seed, "validation_points": 2}
    for r in core.run_instances(__name__, inst, o, jobs=opts.get("jobs")):
        rep.add_instance_result(__name__, r)
    return rep.finish(level="other", explanation=EXPLANATION)
