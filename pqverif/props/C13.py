"""C13 - invalid programs are rejected up front; valid ones are never refused (E-CH)."""
from .. import core, ch
from . import C12

from piquasso.api import simulator as _sim, instruction as _ins, mode as _mode

EXTRA = '''

class Prep(pq.Preparation):
    def __init__(self):
        super().__init__()


class Unsupported(pq.Gate):
    NUMBER_OF_MODES = 1
    def __init__(self):
        super().__init__()


class M2(pq.Measurement):
    """a measurement class that is NOT allowed mid-circuit nor with shots=None"""
    def __init__(self):
        super().__init__()


Sim._instruction_map = {G1: step, G2: step, M: mstep, M2: mstep, Prep: step}
Sim._measurement_classes_allowed_with_shots_none = (M,)


def steps_run():
    return FAULT["count"]


def _attempt(build, shots=1, d=4, init=None):
    """returns ("piquasso-exception", steps) / ("other-exception", name, steps) / ("ok", steps)"""
    _arm(-1, -1)
    try:
        prog = build()
        Sim(d=d).execute(prog, shots=shots, initial_state=init)
    except PiquassoException:
        return ("piquasso-exception", steps_run())
    except Exception as e:
        return ("other-exception", type(e).__name__, steps_run())
    return ("ok", steps_run())


def _prog(*ins):
    return pq.Program(instructions=list(ins))


def invalid_modes_rejected(a, b, pos, via_q):
    """a two-mode gate addressed on (a, b) at instruction position pos of a 3-gate program on d=4 is
    rejected with a Piquasso exception before any step runs iff a mode is negative, >= d or repeated."""
    bad = a < 0 or b < 0 or a >= 4 or b >= 4 or a == b
    def build():
        if via_q:
            with pq.Program() as p:
                for k in range(3):
                    if k == pos:
                        pq.Q(a, b) | G2(0.3)
                    else:
                        pq.Q(k) | G1(0.1)
            return p
        ins = [G1(0.1).on_modes(0), G1(0.2).on_modes(1), G1(0.3).on_modes(2)]
        ins[pos] = G2(0.3).on_modes(a, b)
        return _prog(*ins)
    r = _attempt(build)
    return (r == ("piquasso-exception", 0)) if bad else (r[0] == "ok")


def wrong_mode_count_rejected(n, pos):
    """a 2-mode gate given n modes (n = 0 means 'all modes' of a d=4 register) is rejected unless n == 2"""
    def build():
        ins = [G1(0.1).on_modes(0), G1(0.2).on_modes(1), G1(0.3).on_modes(2)]
        ins[pos] = G2(0.3).on_modes(*range(n))
        return _prog(*ins)
    r = _attempt(build)
    return (r[0] == "ok") if n == 2 else (r == ("piquasso-exception", 0))


def order_rules(kind, pos):
    """kind 0: preparation at position pos (valid only at 0 / after preparations); kind 1: unsupported
    instruction at pos; kind 2: non-mid-circuit measurement M2 at pos (valid only last); kind 3: allowed
    mid-circuit measurement M at pos (always valid)."""
    def build():
        ins = [G1(0.1).on_modes(0), G1(0.2).on_modes(1), G1(0.3).on_modes(2)]
        new = [Prep(), Unsupported().on_modes(3), M2().on_modes(3), M().on_modes(3)][kind]
        ins.insert(pos, new)
        return _prog(*ins)
    r = _attempt(build)
    valid = (kind == 0 and pos == 0) or (kind == 2 and pos == 3) or kind == 3
    return (r[0] == "ok") if valid else (r == ("piquasso-exception", 0))


def order_sequence(k0, k1, k2, k3):
    """a 4-instruction program whose k-th instruction (on mode k) is a gate (0), a preparation (1), a measurement allowed
    mid-circuit (2) or a measurement allowed only as the LAST instruction (3): accepted iff the preparations form a prefix
    and every kind-3 measurement is the last instruction; otherwise rejected before any step runs."""
    kinds = [k0, k1, k2, k3]
    def build():
        ins = []
        for pos in range(4):
            k = kinds[pos]
            if k == 0:
                ins.append(G1(0.1).on_modes(pos))
            elif k == 1:
                ins.append(Prep())
            elif k == 2:
                ins.append(M().on_modes(pos))
            else:
                ins.append(M2().on_modes(pos))
        return _prog(*ins)
    valid = True
    seen_other = False
    for pos in range(4):
        if kinds[pos] == 1:
            if seen_other:
                valid = False
        else:
            seen_other = True
        if kinds[pos] == 3 and pos != 3:
            valid = False
    r = _attempt(build)
    return (r[0] == "ok") if valid else (r == ("piquasso-exception", 0))


def inferred_d(a, b, pos, extra):
    """a simulator created WITHOUT d infers it from the program: a valid program (distinct non-negative modes in any
    order, highest mode anywhere) is never refused and the state has max(mode)+1 modes."""
    ins = [G1(0.1).on_modes(0), G1(0.2).on_modes(1), G1(0.3).on_modes(extra)]
    ins[pos] = G2(0.3).on_modes(a, b)
    want = max(max(i.modes) for i in ins) + 1
    _arm(-1, -1)
    try:
        res = Sim().execute(_prog(*ins), shots=1)
    except Exception:
        return False
    return res.state.d == want and steps_run() == 3


def shots_rules(shots, use_none, meas_kind, pos):
    """shots must be a positive int or None; shots=None is refused (before any evolution) when the
    program contains a measurement that does not support it"""
    def build():
        ins = [G1(0.1).on_modes(0), G1(0.2).on_modes(1)]
        ins.insert(pos, [M().on_modes(3), M2().on_modes(3)][meas_kind]) if (meas_kind == 0 or pos == 2) else ins.append(M2().on_modes(3))
        return _prog(*ins)
    s = None if use_none else shots
    r = _attempt(build, shots=s)
    if use_none:
        valid = meas_kind == 0
    else:
        valid = shots > 0
    return (r[0] == "ok") if valid else (r == ("piquasso-exception", 0))


def initial_state_rules(d_state, wrong_type):
    """initial_state of another class or on another number of modes is rejected before any evolution"""
    class Other(DummyState):
        pass
    def build():
        return _prog(G1(0.1).on_modes(0), G1(0.2).on_modes(1))
    if wrong_type:
        class Sim2(Sim):
            _state_class = Other
        _arm(-1, -1)
        try:
            Sim2(d=4).execute(build(), initial_state=DummyState(4, NumpyConnector(), None))
        except PiquassoException:
            return steps_run() == 0
        except Exception:
            return False
        return False
    r = _attempt(build, init=DummyState(d_state, NumpyConnector(), None))
    return (r[0] == "ok") if d_state == 4 else (r == ("piquasso-exception", 0))


def valid_never_refused(m, a, b, mpos, kind, shots, met):
    """every structurally valid adaptive program (symbolic distinct modes, any measurement position,
    parameter kind, condition truth, shots) runs to completion: the active-mode bookkeeping never raises"""
    _arm(-1, -1, met)
    prog = make_program(m, a, b, mpos, kind)
    try:
        Sim(d=4).execute(prog, shots=shots)
    except Exception:
        return False
    return True


def q_rules(a, b, c):
    """Q(a, b, c) raises InvalidModes iff a mode is negative or modes repeat"""
    bad = a < 0 or b < 0 or c < 0 or len({a, b, c}) < 3
    try:
        q = pq.Q(a, b, c)
    except PiquassoException:
        return bad
    return (not bad) and q.modes == (a, b, c)
'''


def conditions(tier):
    parts, conds = [], []

    def add(fn, sig, pre, call, desc, timeout=60):
        parts.append('def %s(%s) -> bool:\n    """\n    pre: %s\n    post: _\n    """\n    return %s\n\n' % (fn, sig, pre, call))
        conds.append({"fn": fn, "desc": desc, "timeout_s": timeout})

    for pos in range(3):
        for via in (0, 1):
            add("modes_p%d_q%d" % (pos, via), "a: int, b: int", "-1 <= a <= 4 and -1 <= b <= 4", "invalid_modes_rejected(a, b, %d, %d)" % (pos, via),
                "negative / out-of-range / repeated modes at instruction %d (%s) are rejected up front, valid ones run" % (pos, "via Q(...) |" if via else "via on_modes"), 120)
    add("mode_count_explicit", "n: int, pos: int", "1 <= n <= 4 and 0 <= pos <= 2", "wrong_mode_count_rejected(n, pos)", "wrong number of explicitly given modes for a 2-mode gate is rejected up front at any position")
    add("mode_count_all_modes", "pos: int", "0 <= pos <= 2", "wrong_mode_count_rejected(0, pos)", "a 2-mode gate registered without modes ('all modes') on a 4-mode register is rejected up front at any position")
    for kind in range(4):
        add("order_k%d" % kind, "pos: int", "0 <= pos <= 3", "order_rules(%d, pos)" % kind,
            ["preparation after other instructions", "unsupported instruction", "measurement not allowed mid-circuit", "allowed mid-circuit measurement"][kind] + ": rejected up front exactly when invalid, for every position")
    for k0 in range(4):
        add("order_seq_k%d" % k0, "k1: int, k2: int, k3: int", "0 <= k1 <= 3 and 0 <= k2 <= 3 and 0 <= k3 <= 3", "order_sequence(%d, k1, k2, k3)" % k0,
            "every sequence of 4 instruction kinds (gate / preparation / mid-circuit measurement / end-only measurement) starting with kind %d: accepted iff preparations form a prefix and end-only measurements are last, else rejected with zero steps" % k0, 120)
    for pos in range(3):
        add("inferred_d_p%d" % pos, "a: int, b: int, extra: int", "0 <= a <= 4 and 0 <= b <= 4 and a != b and 0 <= extra <= 5", "inferred_d(a, b, %d, extra)" % pos,
            "simulator without d: the number of modes is inferred as max(mode)+1 for any mode order; valid programs run (2-mode gate at position %d)" % pos, 120)
    add("shots_int", "shots: int, meas_kind: int, pos: int", "-3 <= shots <= 3 and 0 <= meas_kind <= 1 and 0 <= pos <= 2", "shots_rules(shots, False, meas_kind, pos)",
        "non-positive shots rejected up front, positive accepted")
    add("shots_none", "meas_kind: int, pos: int", "0 <= meas_kind <= 1 and 0 <= pos <= 2", "shots_rules(1, True, meas_kind, pos)",
        "shots=None with a measurement that does not support it is rejected before any evolution; supported ones run")
    add("initial_state_d", "d_state: int", "1 <= d_state <= 6", "initial_state_rules(d_state, False)", "initial_state on the wrong number of modes rejected up front")
    add("initial_state_type", "d_state: int", "4 <= d_state <= 4", "initial_state_rules(d_state, True)", "initial_state of the wrong class rejected up front")
    add("q_constructor", "a: int, b: int, c: int", "-2 <= a <= 3 and -2 <= b <= 3 and -2 <= c <= 3", "q_rules(a, b, c)", "Q(...) rejects negative and repeated modes only", 120)
    for kind in range(3):
        for mpos in ((1, 3) if tier == "quick" else (1, 2, 3)):
            add("valid_k%d_p%d" % (kind, mpos), "m: int, a: int, b: int, shots: int, met: bool", C12.PRE3 + " and 1 <= shots <= 3",
                "valid_never_refused(m, a, b, %d, %d, shots, met)" % (mpos, kind),
                "valid adaptive programs are never refused: symbolic distinct modes, shots 1..3, condition truth; kind=%d, measurement at %d" % (kind, mpos), 90)
    parts.append('def twin_modes(a: int, b: int) -> bool:\n    """\n    pre: -2 <= a <= 5 and -2 <= b <= 5\n    post: False\n    """\n    return invalid_modes_rejected(a, b, 1, 0)\n\n')
    conds.append({"fn": "twin_modes", "twin": True})
    return "".join(parts), conds


# ----------------------------------------------------------------------------- real simulators at small cutoffs (light explorer)
def h_real_accept(env, sim):
    """valid programs on the REAL simulators are never refused: solver-chosen cutoff 1..3, gate, ordered
    modes, measurement yes/no; every feasible choice is executed with shots=None (all outcome branches)."""
    import warnings
    import piquasso as pq
    import numpy as np
    from .. import xa as _xa
    cutoff = env.pick_int("cutoff", 1, 3)
    gate = env.pick_int("gate", 0, 3)
    a = env.pick_int("a", 0, 2)
    b = env.pick_int("b", 0, 2)
    photons = env.pick_int("photons", 0, 2)
    measure = env.pick_int("measure", 0, 1)
    if a == b or photons >= cutoff:
        if env.mode == "sym":
            raise _xa.PathAbort("not a valid program")
        env.num_assumptions.append(("valid", False))
        return
    Sim = {"pure": pq.PureFockSimulator, "mixed": pq.FockSimulator, "passive": pq.PassiveSimulator}[sim]
    g = [pq.Beamsplitter(0.3, 0.2), pq.Phaseshifter(0.4), pq.Interferometer(np.array([[0.6, 0.8], [-0.8, 0.6]], dtype=complex)), pq.Beamsplitter5050()][gate]
    modes = (a,) if gate == 1 else (a, b)
    ok = True
    why = ""
    with warnings.catch_warnings():
        warnings.simplefilter("ignore")
        try:
            ins = [pq.Vacuum()] if sim != "passive" else [pq.NumberState([0, 0, 0])]
            if sim == "passive":
                occ = [0, 0, 0]
                occ[a] = photons
                ins = [pq.NumberState(occ)]
            else:
                ins += [pq.Create().on_modes(a) for _ in range(photons)]
            ins.append(g.on_modes(*modes))
            if measure:
                ins.append(pq.ParticleNumberMeasurement().on_modes(b))
                if sim != "mixed":      # the mixed-state simulator supports measurements only at the end
                    ins.append(pq.Phaseshifter(0.1).on_modes(3 - a - b))      # the mode that is neither a nor b
            r = Sim(d=3, config=pq.Config(cutoff=cutoff)).execute(pq.Program(instructions=ins), shots=None if sim != "mixed" or True else 1)
            for br in r.branches:
                if br.state is not None:
                    br.state.fock_probabilities
        except Exception as e:      # any exception on a valid program is a refusal
            ok = False
            why = "%s: %s" % (type(e).__name__, str(e)[:80])
    env.holds("valid program accepted on %s (cutoff=%d gate=%d modes=%s photons=%d measure=%d) %s" % (sim, cutoff, gate, modes, photons, measure, why) if not ok else "valid program accepted", ok)


HARNESSES = {"real_accept": h_real_accept}


EXPLANATION = (
    "CrossHair executes the real Q / Instruction / Simulator validation and execution pipeline with counting stub steps. For each rule a solver-chosen "
    "single fault (mode values, position of the offending instruction, shots, number of modes of the initial state) must raise a Piquasso exception with "
    "zero simulation steps run, and the non-faulty values of the same symbolic inputs must execute; valid adaptive programs with symbolic modes, shots and "
    "condition outcomes must run to completion (active-mode bookkeeping never raises)."
)


def run(rep, tier, seed, opts):
    inst = [("real_accept", {"sim": s_}) for s_ in ("pure", "mixed", "passive")]
    if opts.get("only"):
        inst = [i for i in inst if opts["only"] in i[0] or opts["only"] in str(i[1])]
    if inst:
        o = {"timeout_s": 60, "instance_timeout_s": 1500, "seed": seed, "validation_points": 0, "path_budget": 5000, "light_paths": True}
        for r in core.run_instances(__name__, inst, o, jobs=opts.get("jobs")):
            rep.add_instance_result(__name__, r)
    wsrc, conds = conditions(tier)
    source = C12.HEADER + EXTRA + "\n\n" + wsrc
    if opts.get("only"):
        conds = [c for c in conds if opts["only"] in c["fn"]]
    for f in (_mode.Q.__init__, _ins.Instruction._validate_modes, _ins.Instruction.on_modes, _sim.Simulator._validate_instructions, _sim.Simulator._validate_instruction_existence,
              _sim.Simulator._validate_instruction_modes, _sim.Simulator._validate_preparations_at_beginning, _sim.Simulator._validate_measurements_at_end,
              _sim.Simulator._validate_initial_state, _sim.Simulator.execute_instructions, _sim.Simulator._apply_instruction_to_branches,
              _sim.Simulator._do_execute_instructions, _sim.Simulator._remap_modes, _sim.Simulator._delete_modes_from_active):
        rep.note_function(f)
    rep.stubs += ["simulation steps -> counting stubs ('no evolution ran' is the assertion steps == 0)"]
    rep.bounds = {"d": 4, "instructions": "3-5", "mode values": "-2..5", "shots": "-3..3 and None",
                  "real simulators": "pure / mixed / passive, d=3, cutoff 1..3, 4 gate kinds, ordered modes, 0..2 photons, with and without a measurement, shots=None", "outside": "per-instruction _validate of the real gates (shape/range of array parameters), cutoff reduction of post-measurement states on the real Fock simulators (numeric kernels), TF/JAX"}
    if conds:
        ch.run_conditions(rep, source, conds, timeout_s=60 if tier == "quick" else 240, per_path=20, jobs=opts.get("jobs"))
    return rep.finish(level="other", explanation=EXPLANATION)
