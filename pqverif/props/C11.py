"""C11 - seeded runs are reproducible and independent of parallel scheduling (PARTIAL, E-CX + explorer).

 * partition: the statements of src/permanent.cpp / permanent_laplace.cpp that derive the number of jobs from
   std::thread::hardware_concurrency() and split the Gray-code index range among them, executed from clang's AST on
   symbolic machine integers (ALL index-range sizes up to 2^31, ALL thread counts 0..2^16, ANY job): the jobs tile the range.
 * jobs: permanent_cpp<double> as a whole on a generic complex matrix for every thread-count class (solver-enumerated),
   including hardware_concurrency() == 0: the result does not depend on it.
 * rng_source: the sampling steps of the Fock simulators draw only from the generator owned by the simulator's Config:
   draws are contract stubs - a draw served by the Config's generator is the same symbolic value in two runs with the same
   seed, a draw served by process-global state is an unconstrained value per run - and the solver looks for two runs whose
   samples differ."""
import random as _random

import numpy
import z3

from .. import xa, core, si, cx
from . import cxcommon as cc


# ----------------------------------------------------------------------------------------------- partition
def _slice(prog, fname, pick):
    fn = prog.find(None, fname, 3, pick=pick)
    if fn is None:
        raise xa.HarnessError("%s not found" % fname)
    body = [c for c in fn["inner"] if c.get("kind") == "CompoundStmt"][0]["inner"]
    loops = [s for s in body if s.get("kind") == "ForStmt" and cc.find_nodes(s["inner"][0], lambda n: n.get("kind") == "VarDecl" and n.get("name") == "job_idx")]
    if not loops:
        raise xa.HarnessError("%s: no loop over job_idx" % fname)
    loop = loops[0]
    k = body.index(loop)
    # statements between the declaration of n_threads and the loop that mention only integers
    pre = []
    started = False
    for s in body[:k]:
        if cc.find_nodes(s, lambda n: n.get("kind") == "VarDecl" and n.get("name") == "n_threads"):
            started = True
        if started:
            pre.append(s)
    if not pre:
        raise xa.HarnessError("%s: no declaration of n_threads before the job loop" % fname)
    pre = [s for s in pre if not cc.find_nodes(s, lambda n: n.get("kind") == "VarDecl" and n.get("name") == "thread_results")]
    idx_decl = [n for s in body[:k] for n in cc.find_nodes(s, lambda n: n.get("kind") == "VarDecl" and n.get("name") == "idx_max")]
    lbody = loop["inner"][4]["inner"]
    prefix = []
    for s in lbody:
        if cc.find_nodes(s, lambda n: n.get("kind") == "VarDecl" and n.get("name") == "gcode_counter"):
            break
        prefix.append(s)
    else:
        raise xa.HarnessError("%s: the job body does not create gcode_counter" % fname)
    jdecl = cc.find_nodes(loop["inner"][0], lambda n: n.get("kind") == "VarDecl" and n.get("name") == "job_idx")[0]
    names = {}
    for s in prefix + pre:
        for n in cc.find_nodes(s, lambda n: n.get("kind") == "VarDecl"):
            names[n["name"]] = n
    return fn, pre, prefix, idx_decl[0], jdecl, names, loop


def h_partition(env, which, part, idx_hi=2 ** 31):
    """work split of the native permanent for ALL sizes: idx_max = number of Gray-code indices (1..2^31), hc = value returned
    by hardware_concurrency() (0..65536), job = any job index and its successor."""
    prog = cc.program(which)
    fname, pick = {"permanent": ("permanent_cpp", "complex<double>"), "laplace": ("permanent_laplace_cpp", "complex<double>")}[which]
    env.functions += cc.fn_refs(prog, "%s: thread count -> concurrency -> per-job offsets (clang-14 AST slice)" % fname)
    env.stubs += ["std::thread::hardware_concurrency() = symbolic integer 0..65536"]
    IDX = env.ivar("idx_max", 1, idx_hi)
    HC = env.ivar("n_threads", 0, 65536)
    J = env.ivar("job", 0, 2 ** 31) if part == "split" else None
    if env.mode == "num":
        # twin: the compiled kernel on the all-ones matrix with one counted row of multiplicity idx_max - 1 (idx_max Gray-code
        # indices) and the witness thread count; per(J_n) = n!
        import math
        m = min(int(IDX), 14)
        if int(IDX) > 14:
            env.num_assumptions.append(("witness small enough for the native twin (idx_max <= 14)", False))
            return
        if which == "laplace":
            got, ub = cc.native_permanent(numpy.ones((1, 1)), [m], [m + 1], int(HC), "L")
            got = got[0] if got else None
        else:
            got, ub = cc.native_permanent(numpy.ones((1, 1)), [m], [m], int(HC))
        ok = (not ub) and got is not None and abs(got - math.factorial(m)) <= 1e-9 * math.factorial(m)
        env.holds("at least one job when there is work (concurrency >= 1)", ok)
        return
    fn, pre, prefix, idx_decl, jdecl, names, loop = _slice(prog, fname, pick)
    it = cx.Interp(prog, env, hardware_concurrency=si.SI(HC, 32))
    frame = {idx_decl["id"]: si.SI(IDX, 64)}
    it.frames.append(frame)
    it.this.append(None)
    for s in pre:
        it.stmt(s)
    conc = frame[names["concurrency"]["id"]] if "concurrency" in names else None
    if conc is None:
        raise xa.HarnessError("no variable named concurrency")
    conc = si.SI.lift(conc, 64)
    env.holds("at least one job when there is work (concurrency >= 1)", conc >= 1)
    env.holds("never more jobs than indices", conc <= si.SI(IDX, 64))
    if part == "count":
        return
    env.assume("job < concurrency", xa.SymBool(z3.And(J < conc.e)))

    def run(j):
        fr = dict(frame)
        fr[jdecl["id"]] = si.SI(j, 64)
        it.frames.append(fr)
        for s in prefix:
            it.stmt(s)
        it.frames.pop()
        return si.SI.lift(fr[names["initial_offset"]["id"]], 64), si.SI.lift(fr[names["offset_max"]["id"]], 64)

    a0, b0 = run(z3.IntVal(0))
    env.holds("job 0 starts at index 0", a0 == 0)
    a, b = run(J)
    env.holds("every job has at least its initial index (initial_offset <= offset_max)", a <= b)
    env.holds("offsets stay inside the index range", xa.SymBool(z3.And(a.e >= 0, b.e <= IDX - 1)))
    last = it.truth(si.SI(J, 64) == conc - 1)
    if last:
        env.holds("the last job ends at idx_max - 1", b == si.SI(IDX, 64) - 1)
    else:
        a1, b1 = run(J + 1)
        env.holds("job j+1 starts right after job j ends", a1 == b + 1)


# ----------------------------------------------------------------------------------------------- whole function per thread-count class
def h_jobs(env, rows, cols, kernel="permanent"):
    """permanent_cpp<double> on a generic matrix for every value hardware_concurrency() may return (0..1024): the solver
    enumerates the classes (4*hc below the number of Gray-code indices: one path per value; at or above: one path) and the
    result equals the definition on each, i.e. it does not depend on the thread count / work partition."""
    d = len(rows)
    A = env.cplx_mat("a", d)
    prog = cc.program()
    env.functions += cc.fn_refs(prog, "permanent_cpp<double>, n_aryGrayCodeCounter, binomialCoeff (clang-14 AST)")
    env.stubs += ["Matrix/Vector handles of src/matrix.hpp, std::vector, std::complex arithmetic, ldexp, uninitialized_copy_n = native models",
                  "std::thread::hardware_concurrency() = symbolic integer 0..1024"]
    if kernel == "laplace":
        want = [cc.permanent_definition(A, rows, [c - (1 if j == i else 0) for j, c in enumerate(cols)]) if cols[i] > 0 else 0 for i in range(d)]
        if env.mode == "sym":
            hc = si.SI(env.ivar("n_threads", 0, 1024), 32)
            got, ub = cc.interp_laplace(env, A, rows, cols, hc, cc.program("laplace"))
        else:
            hc = env.ivar("n_threads", 0, 1024)
            got, ub = cc.native_permanent(A, rows, cols, hc, "L")
            got = got if got is not None else [float("nan")] * d
        for i in range(d):
            if cols[i] > 0:
                env.equal("Laplace sub-permanent %d for this thread count == definition" % i, got[i], want[i])
        env.holds("no undefined behaviour", not ub)
        return
    want = cc.permanent_definition(A, rows, cols)
    if env.mode == "sym":
        hc = si.SI(env.ivar("n_threads", 0, 1024), 32)
        got, ub = cc.interp_permanent(env, A, rows, cols, hc, prog)
        env.equal("result for this thread count == definition", got, want)
        env.holds("no undefined behaviour", not ub)
    else:
        hc = env.ivar("n_threads", 0, 1024)
        got, ub = cc.native_permanent(A, rows, cols, hc)
        env.equal("result for this thread count == definition", got if got is not None else float("nan"), want)
        env.holds("no undefined behaviour", not ub)


# ----------------------------------------------------------------------------------------------- which generator serves the draws
class _StubGen:
    """contract stub of a random generator: every draw is a solver-chosen index; draws of the Config-owned generator are
    shared between the two runs (same seed, same stream position), draws of process-global state are fresh per run"""

    def __init__(self, env, tag, shared, run):
        self.env, self.tag, self.shared, self.run = env, tag, shared, run
        self.n = 0

    def _pick(self, k):
        name = "%s.draw%d" % (self.tag, self.n) if self.shared else "%s.run%d.draw%d" % (self.tag, self.run, self.n)
        self.n += 1
        if self.env.mode == "num":
            return int(self.env.values.get(name, 0)) % k
        return self.env.pick_int(name, 0, k - 1)

    # numpy Generator interface used by the steps
    def choice(self, a, size=None, p=None, **kw):
        pop = list(range(a)) if isinstance(a, int) else list(a)
        cnt = 1 if size is None else int(size)
        out = [pop[self._pick(len(pop))] for _ in range(cnt)]
        return out[0] if size is None else numpy.array(out, dtype=object if not isinstance(a, int) else int)

    # random module interface
    def choices(self, population, weights=None, k=1, **kw):
        pop = list(population)
        return [pop[self._pick(len(pop))] for _ in range(k)]


def h_rng_source(env, sim, shots):
    """two runs of the real particle-number measurement step of a Fock simulator with the same Config seed and arbitrary,
    different process-global random state return the same samples"""
    import piquasso as pq
    from piquasso import _utils as U
    sims = {"pure": pq.PureFockSimulator, "mixed": pq.FockSimulator}
    env.functions += [core.fn_ref(U.sample_from_probability_map)]
    env.stubs += ["numpy Generator owned by Config (config.rng) = contract stub shared by both runs", "random module (process-global Mersenne Twister) = contract stub, fresh per run"]
    if env.mode == "num":
        # real code, real generators: same seed, different global state in between
        outs = []
        for glob in (int(env.values.get("g1", 1)), int(env.values.get("g2", 2))):
            simulator = sims[sim](d=2, config=pq.Config(seed_sequence=7, cutoff=2))
            _random.seed(glob)       # "whatever else the process did in between", e.g. creating another Config
            with pq.Program() as prog:
                pq.Q(0, 1) | pq.StateVector([1, 0]) if sim == "pure" else pq.Q(0, 1) | pq.DensityMatrix((1, 0), (1, 0))
                pq.Q(0, 1) | pq.Beamsplitter(theta=0.7, phi=0.3)
                pq.Q(0, 1) | pq.ParticleNumberMeasurement()
            outs.append([tuple(int(x) for x in s) for s in simulator.execute(prog, shots=max(shots, 16)).samples])
        env.holds("samples of two runs with the same seed are identical", outs[0] == outs[1])
        return
    outs = []
    saved = (U.random,)
    try:
        for run in (0, 1):
            simulator = sims[sim](d=2, config=pq.Config(seed_sequence=7, cutoff=2))
            simulator.config.rng = _StubGen(env, "config", True, run)
            U.random = _StubGen(env, "global", False, run)
            with pq.Program() as prog:
                pq.Q(0, 1) | pq.StateVector([1, 0]) if sim == "pure" else pq.Q(0, 1) | pq.DensityMatrix((1, 0), (1, 0))
                pq.Q(0, 1) | pq.Beamsplitter(theta=0.7, phi=0.3)
                pq.Q(0, 1) | pq.ParticleNumberMeasurement()
            outs.append([tuple(int(x) for x in s) for s in simulator.execute(prog, shots=shots).samples])
    finally:
        U.random = saved[0]
    env.holds("samples of two runs with the same seed are identical", sorted(outs[0]) == sorted(outs[1]))


# ----------------------------------------------------------------------------------------------- per-shot seeds, sequential vs dask
class _FakeDask:
    """dask.delayed / dask.compute contract: compute returns the results of the delayed calls in the order they were given"""
    class _Delayed:
        def __init__(self, f):
            self.f = f

        def __call__(self, *a, **k):
            return ("call", self.f, a, k)

    def delayed(self, f):
        return _FakeDask._Delayed(f)

    def compute(self, *items):
        # executed in reverse order: a worker pool gives no ordering guarantee, only the positions of the results are fixed
        res = {}
        for i in reversed(range(len(items))):
            _, f, a, k = items[i]
            res[i] = f(*a, **k)
        return tuple(res[i] for i in range(len(items)))


def h_shot_seeds(env, shots):
    """passive sampling, for EVERY Config seed (symbolic integer): shot idx is generated from a generator seeded with seed + idx,
    whether the shots run sequentially or through dask; the generator constructor and the per-sample generator are contract
    stubs that record the seed they are handed"""
    import sys
    import types
    from piquasso._simulators.passive import sampling as S
    env.functions += [core.fn_ref(S._generate_samples)]
    env.stubs += ["numpy.random.default_rng inside passive/sampling.py = recorder of its seed", "sample generator = returns the seed of the generator it is handed",
                  "dask.delayed / dask.compute = contract stub (results in submission order, execution order reversed)"]
    seed = env.ivar("seed", 0, 2 ** 62)
    if env.mode == "num":
        import piquasso as pq
        outs = []
        for use_dask in (False, True):
            sim = pq.SamplingSimulator(d=3, config=pq.Config(seed_sequence=int(seed), use_dask=use_dask))
            with pq.Program() as prog:
                pq.Q(0, 1, 2) | pq.StateVector([1, 1, 0])
                pq.Q(0, 1) | pq.Beamsplitter(theta=0.7, phi=0.2)
                pq.Q(1, 2) | pq.Beamsplitter(theta=0.4, phi=0.1)
                pq.Q(0, 1, 2) | pq.ParticleNumberMeasurement()
            outs.append([tuple(int(x) for x in s) for s in sim.execute(prog, shots=shots).samples])
        env.holds("dask and sequential execution hand the same seed to every shot", outs[0] == outs[1])
        return

    class _NP:
        sum = staticmethod(numpy.sum)

        class random:
            @staticmethod
            def default_rng(seed=None):
                return ("rng", seed)

    def gen(d, n, perm, interferometer, fq, rng):
        return (rng[1],)

    class _Cfg:
        def __init__(self, use_dask):
            self.seed_sequence = si.SI(seed, 64)
            self.use_dask = use_dask

    saved_np = S.np
    saved_dask = sys.modules.get("dask")
    fake = types.ModuleType("dask")
    fd = _FakeDask()
    fake.delayed, fake.compute = fd.delayed, fd.compute
    outs = []
    try:
        S.np = _NP
        sys.modules["dask"] = fake
        for use_dask in (False, True):
            outs.append(S._generate_samples(numpy.array([1, 1, 0]), shots, None, None, gen, _Cfg(use_dask)))
    finally:
        S.np = saved_np
        if saved_dask is not None:
            sys.modules["dask"] = saved_dask
        else:
            sys.modules.pop("dask", None)
    ok = []
    for which, out in zip(("sequential", "dask"), outs):
        env.holds("%s: one sample per shot" % which, len(out) == shots)
        for idx in range(min(shots, len(out))):
            got = out[idx][0]
            ok.append(si.SI.lift(got).e == seed + idx)
    env.holds("dask and sequential execution hand the same seed to every shot", xa.SymBool(z3.And(*ok)) if ok else True)


h_shot_seeds.replay_any = True


class _SymSeed:
    """a symbolic integer seed: truthiness is decided by the solver (forks the path), equality is a z3 term"""
    def __init__(self, env, e):
        self.env, self.e = env, e

    def __bool__(self):
        return self.env.decide(self.e != 0)

    def __eq__(self, o):
        return self is o

    def __ne__(self, o):
        return self is not o

    __hash__ = object.__hash__


def h_seed_identity(env):
    """for EVERY integer seed the generator of a Config is seeded with exactly that seed (so two Configs with the same seed
    agree); the generator constructors are contract stubs that record the seed they receive"""
    from piquasso.api import config as CFG
    env.functions += [core.fn_ref(CFG.Config.__init__)]
    env.stubs += ["numpy.random.default_rng / random.seed inside piquasso.api.config = recorders of the seed they are handed"]
    s = env.ivar("seed", 0, 2 ** 63)
    if env.mode == "num":
        a, b = CFG.Config(seed_sequence=int(s)), CFG.Config(seed_sequence=int(s))
        env.holds("the generator is seeded with the user's seed", a.seed_sequence == int(s) and b.seed_sequence == int(s)
                  and a.rng.integers(0, 2 ** 62) == b.rng.integers(0, 2 ** 62))
        return
    got = []

    class _NP:
        class random:
            @staticmethod
            def default_rng(x=None):
                got.append(x)
                return None
        float64 = numpy.float64

    class _R:
        @staticmethod
        def seed(x=None):
            got.append(x)
    saved = (CFG.np, CFG.random)
    sym = _SymSeed(env, s)
    try:
        CFG.np, CFG.random = _NP, _R
        CFG.Config(seed_sequence=sym)
    finally:
        CFG.np, CFG.random = saved
    env.holds("the generator is seeded with the user's seed", bool(got) and all(g is sym for g in got))


h_seed_identity.replay_any = True
h_rng_source.replay_any = True
h_partition.replay_any = True

HARNESSES = {"partition": h_partition, "jobs": h_jobs, "rng_source": h_rng_source, "seed_identity": h_seed_identity, "shot_seeds": h_shot_seeds}


def instances(tier):
    out = [("partition", {"which": w, "part": p}) for w in ("permanent", "laplace") for p in ("count", "split")]
    out += [("partition", {"which": w, "part": "split", "idx_hi": 14}) for w in ("permanent", "laplace")]     # same query with witnesses the native twin can replay
    out += [("jobs", {"rows": list(r), "cols": list(c)}) for r, c in (((1, 1), (1, 1)), ((2, 2), (3, 1)), ((2, 0, 1), (1, 1, 1)), ((3, 2), (4, 1)), ((2, 2, 1), (1, 3, 1)))]
    out += [("jobs", {"rows": list(r), "cols": list(c), "kernel": "laplace"}) for r, c in (((2, 1), (2, 2)), ((2, 2), (3, 2)), ((2, 2, 1), (2, 3, 1)))]
    out += [("rng_source", {"sim": s, "shots": 2}) for s in ("pure", "mixed")]
    out += [("seed_identity", {})]
    out += [("shot_seeds", {"shots": n}) for n in (1, 5, 33, 70)]
    if tier == "thorough":
        out += [("jobs", {"rows": list(r), "cols": list(c)}) for r, c in (((4, 2, 1), (2, 3, 2)), ((3, 3), (3, 3)), ((2, 1, 2), (1, 2, 2)), ((2, 1, 2, 1), (1, 2, 2, 1)))]
        out += [("rng_source", {"sim": s, "shots": 3}) for s in ("pure", "mixed")]
    return out


EXPLANATION = (
    "PARTIAL. (1) The integer statements of the native permanent kernels that turn hardware_concurrency() into a job count and split the Gray-code index range "
    "are executed from clang's AST of the current source on symbolic machine integers: for ALL range sizes up to 2^31, ALL thread counts 0..65536 and ANY job, z3 decides "
    "that there is at least one job, never more jobs than indices, job 0 starts at 0, consecutive jobs abut, the last job ends at idx_max-1, every job owns its initial index, "
    "and no intermediate leaves its C++ type. (2) permanent_cpp<double> and permanent_laplace_cpp<double> as a whole, interpreted on a generic complex matrix, equal the definition for every thread-count "
    "class the solver enumerates (including 0). (3) Non-interference of process-global random state: with generators as contract stubs, the solver searches for two runs "
    "with the same Config seed whose Fock particle-number samples differ. (4) Config seeds its generators with exactly the user's seed for every integer seed (symbolic)."
)


def run(rep, tier, seed, opts):
    inst = instances(tier)
    if opts.get("only"):
        inst = [i for i in inst if opts["only"] in i[0] or opts["only"] in str(i[1])]
    rep.bounds = {"partition": "idx_max 1..2^31, hardware_concurrency 0..65536, any job (symbolic)", "whole function": "multiplicity patterns with <= 5 (7 thorough) photons on <= 3 rows, thread counts 0..1024",
                  "shot_seeds": "1, 5, 33, 70 shots; every seed 0..2^62 (symbolic)", "rng_source": "2 (3) shots, 2 modes, cutoff 2, one photon behind a beamsplitter, pure and mixed Fock simulators",
                  "outside": "OpenMP / numba prange scheduling itself (the jobs are interpreted sequentially; their accumulators are per job by construction of the source), dask, "
                             "float non-associativity of the final reduction, PCG64 / Mersenne Twister internals (contract stubs), different seeds give different samples, "
                             "Gaussian samplers' generator provenance and per-shot seeds, idx_max beyond 2^31 (the counter narrows offsets to int)"}
    o = {"timeout_s": 60 if tier == "quick" else 300, "instance_timeout_s": 900, "seed": seed, "validation_points": 2, "path_budget": 400, "som_blowup": True}
    for r in core.run_instances(__name__, [i for i in inst if i[0] != "rng_source"], o, jobs=opts.get("jobs")):
        rep.add_instance_result(__name__, r)
    o2 = dict(o, light_paths=True, path_budget=3000, validation_points=0)
    for r in core.run_instances(__name__, [i for i in inst if i[0] == "rng_source"], o2, jobs=opts.get("jobs")):
        rep.add_instance_result(__name__, r)
    return rep.finish(level="other", explanation=EXPLANATION)
