"""Oracles and helpers for Fock-space harnesses (written from the definitions, independent of
piquasso's algorithms)."""
import itertools
import math

import numpy

from .. import xa
from . import common as cm


def basis(d, cutoff):
    """truncated Fock basis in the documented order: by particle number, anti-lexicographic"""
    out = []
    for n in range(cutoff):
        sector = [v for v in itertools.product(range(n + 1), repeat=d) if sum(v) == n]
        sector.sort(key=lambda v: tuple(-x for x in v))
        out += sector
    return out


def sector(d, n):
    s = [v for v in itertools.product(range(n + 1), repeat=d) if sum(v) == n]
    s.sort(key=lambda v: tuple(-x for x in v))
    return s


def perm(M):
    """permanent by its defining sum (M: square array of numbers or SC)"""
    n = M.shape[0]
    if n == 0:
        return 1
    total = 0
    for p in itertools.permutations(range(n)):
        t = 1
        for i in range(n):
            t = t * M[i, p[i]]
        total = total + t
    return total


def perm_cut(env, M, name):
    """permanent by Laplace expansion along rows, every sub-permanent of size >= 2 enclosed (Env.enclose): the same
    defining sum, cut into lemmas with at most n products of two enclosed values each"""
    n = M.shape[0]
    memo = {}

    def rec(r, cols):
        if r == n:
            return 1
        if r == n - 1:
            return M[r, cols[0]]
        key = (r, cols)
        if key not in memo:
            total = 0
            for k, c in enumerate(cols):
                total = total + M[r, c] * rec(r + 1, cols[:k] + cols[k + 1:])
            memo[key] = env.enclose(total, "%s sub-permanent rows %d.. cols %s" % (name, r, list(cols)))
        return memo[key]
    return rec(0, tuple(range(n)))


def repeat_index(occ):
    return [i for i, k in enumerate(occ) for _ in range(k)]


def fock_element(env, U, out, inp, cut=None):
    """<out| U_n |in> = perm(U[out | in]) / sqrt(prod out! prod in!)  (definition)"""
    if sum(out) != sum(inp):
        return 0
    rows, cols = repeat_index(out), repeat_index(inp)
    sub = U[numpy.ix_(rows, cols)] if rows else numpy.zeros((0, 0))
    norm = 1
    for k in list(out) + list(inp):
        norm *= math.factorial(k)
    if not rows:
        return 1
    return (perm_cut(env, sub, cut) if cut else perm(sub)) / env.np.sqrt(norm)


def embed_matrix(env, M, modes, d):
    return cm.embed(env, M, modes, d)


def generic_state_vector(env, d, cutoff, name="a"):
    b = basis(d, cutoff)
    return env.cplx_vec(name, len(b)), b


def helper_indices(env, d, cutoff):
    """the real calculate_interferometer_helper_indices (Python source) with exact square roots"""
    from piquasso._simulators.fock import simulation_steps as fsteps
    fn = fsteps.calculate_interferometer_helper_indices.py_func
    with cm.patched_np(env, fn):
        return fn(d=d, cutoff=cutoff)


def loop_hafnian_def(A, diag):
    """loop hafnian by its defining sum over perfect matchings with loops (A symmetric; diag = loop weights)"""
    n = len(diag)

    def rec(rest):
        if not rest:
            return 1
        i = rest[0]
        others = rest[1:]
        total = diag[i] * rec(others)
        for k, j in enumerate(others):
            total = total + A[i, j] * rec(others[:k] + others[k + 1:])
        return total
    return rec(tuple(range(n)))
