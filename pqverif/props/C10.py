"""C10 - hand-written gradient rules equal the true derivatives (E-XA + exact differentiation of executed terms) - partial:
the NumPy-level rules of piquasso/_math/gradients.py (single-mode displacement and squeezing matrices).  The rules are
executed through a stand-in for the TensorFlow handle (static upstream), the matrices they differentiate are built by the
library's own recursion on symbolic (r, phi), and the true derivative is the exact symbolic derivative of those terms."""
import importlib
import inspect
import textwrap

import numpy

from piquasso._math import gradients as G, gate_matrices as GM

from .. import xa, core, diff
from . import common as cm


class _Up:
    """upstream gradient handed to the rule: TensorFlow eager tensor stand-in"""
    def __init__(self, a):
        self.a = a

    def numpy(self):
        return self.a


class _FakeTF:
    """only the two calls the rules make on the static path"""
    @staticmethod
    def get_static_value(x):
        return x.a

    @staticmethod
    def constant(x):
        return x


def _builder(fn):
    """the library's matrix builder with the TensorFlow workaround `epsilon = 10e-100` set to 0 (a stated cut: the facade's
    power(0, 0) is 1, which is what the workaround is for)"""
    src = textwrap.dedent(inspect.getsource(fn))
    if "epsilon = 10e-100" not in src:
        raise xa.HarnessError("the epsilon workaround was not found in %s: re-read the source" % fn.__name__)
    src = src.replace("epsilon = 10e-100", "epsilon = 0")
    ns = dict(fn.__globals__)
    exec(compile(src, "<%s with epsilon=0>" % fn.__name__, "exec"), ns)
    return ns[fn.__name__]


def _fd(f, x, h=2e-3):
    """5-point central difference (num mode only: replay and engine validation)"""
    return (-f(x + 2 * h) + 8 * f(x + h) - 8 * f(x - h) + f(x - 2 * h)) / (12 * h)


def h_rule(env, gate, cutoff):
    """for ALL r, phi: the matrices r_grad / phi_grad used by the hand-written rule equal dT/dr and dT/dphi of the matrix T the
    library builds, observed through the rule's own reduction Re sum(upstream * conj(grad)) with one-hot upstreams."""
    r = env.param("r")
    phi = env.param("phi")
    conn = cm.connector(env)
    conn._tf = _FakeTF
    build0 = {"displacement": GM.create_single_mode_displacement_matrix, "squeezing": GM.create_single_mode_squeezing_matrix}[gate]
    mkgrad = {"displacement": G.create_single_mode_displacement_gradient, "squeezing": G.create_single_mode_squeezing_gradient}[gate]
    build = _builder(build0)
    GM._double_factorial_array.cache_clear()      # lru_cache would carry facade arrays from a symbolic run into a float run
    env.functions += [core.fn_ref(build0), core.fn_ref(mkgrad)]
    env.stubs.append("tf handle -> static-upstream stand-in (get_static_value / constant); epsilon workaround = 0")
    with cm.patched_np(env, GM):
        T = build(r, phi, cutoff, numpy.complex128, connector=conn)
    rule = mkgrad(r, phi, cutoff, T, conn)
    if env.mode == "sym":
        dT = {"r": [[diff.d_sc(env, T[j, k], "r") for k in range(cutoff)] for j in range(cutoff)],
              "phi": [[diff.d_sc(env, T[j, k], "phi") for k in range(cutoff)] for j in range(cutoff)]}
    else:
        f_r = lambda x: numpy.asarray(build(x, phi, cutoff, numpy.complex128, connector=conn))
        f_p = lambda x: numpy.asarray(build(r, x, cutoff, numpy.complex128, connector=conn))
        dT = {"r": _fd(f_r, r), "phi": _fd(f_p, phi)}
    for j in range(cutoff):
        for k in range(cutoff):
            for unit, part in ((1.0, "re"), (1j, "im")):
                up = numpy.zeros((cutoff, cutoff), dtype=complex)
                up[j, k] = unit
                with cm.patched_np(env, G):
                    gr, gp = rule(_Up(up))
                for name, got in (("r", gr), ("phi", gp)):
                    true = dT[name][j][k] if env.mode == "sym" else dT[name][j, k]
                    # Re(unit * conj(g)) : unit=1 -> Re g ; unit=i -> Im g
                    want = (xa.SC.lift(true).real if part == "re" else xa.SC.lift(true).imag) if env.mode == "sym" else (true.real if part == "re" else true.imag)
                    env.equal("d T[%d,%d]/d %s (%s part)" % (j, k, name, part), got, want)


def _onehot(n, a):
    e = numpy.zeros(n, dtype=complex)
    e[a] = 1.0
    return e


def _vjp_check(env, name, fwd, x, x_unit, got, u, idx_name):
    """TensorFlow's convention for a holomorphic map y = f(x): grad_x[a] = sum_o conj(dy_o/dx_a) * upstream_o.  f is linear
    in x here, so dy/dx_a = f(unit vector a) computed by the library's own forward function."""
    np_ = env.np
    for a, unit in x_unit:
        col = fwd(unit)
        want = 0
        for o in range(len(u)):
            want = want + np_.conj(col[o]) * u[o]
        env.equal("%s[%s]" % (name, idx_name(a)), got(a), want)


def h_apply_active(env, d, cutoff, mode):
    """VJP of applying a single-mode active gate matrix to a state vector: for ALL state vectors, matrices and upstreams the
    hand-written rule returns conj(J)^T upstream, J being the Jacobian of the library's own forward function."""
    from piquasso._simulators.fock.pure import simulation_steps as ps
    from piquasso._simulators.fock.simulation_steps import calculate_state_index_matrix_list
    conn = cm.connector(env)
    conn._tf = _FakeTF
    lst = calculate_state_index_matrix_list(d, cutoff, mode)
    n = sum(m.size for m in lst)
    psi, M, u = env.cplx_vec("a", n), env.cplx_mat("m", cutoff), env.cplx_vec("u", n)
    env.functions += [core.fn_ref(ps._create_linear_active_gate_gradient_function), core.fn_ref(ps._calculate_state_vector_after_apply_active_gate)]
    env.holds("index matrices cover the state vector once", sorted(int(i) for m in lst for i in m.reshape(-1)) == list(range(n)))
    g_psi, g_M = ps._create_linear_active_gate_gradient_function(psi, M, lst, conn)(_Up(u))
    fwd_psi = lambda e: ps._calculate_state_vector_after_apply_active_gate(_obj(env, e), M, lst, conn)
    _vjp_check(env, "grad_state", fwd_psi, psi, [(a, _onehot(n, a)) for a in range(n)], lambda a: g_psi[a], u, str)

    def unit_m(p_, q_):
        E = numpy.zeros((cutoff, cutoff), dtype=complex)
        E[p_, q_] = 1.0
        return E
    fwd_M = lambda E: ps._calculate_state_vector_after_apply_active_gate(psi, _obj(env, E), lst, conn)
    _vjp_check(env, "grad_matrix", fwd_M, M, [((p_, q_), unit_m(p_, q_)) for p_ in range(cutoff) for q_ in range(cutoff)], lambda a: g_M[a[0], a[1]], u, str)


def _obj(env, a):
    return xa.xarr(numpy.asarray(a, dtype=object)) if env.mode == "sym" else a


def h_apply_passive(env, d, cutoff, modes):
    """VJP of applying the subspace representations of an interferometer to a state vector (same convention and oracle)."""
    pl = importlib.import_module("piquasso._simulators.fock.pure.simulation_steps.passive_linear")
    from piquasso._simulators.fock.simulation_steps import calculate_index_list_for_appling_interferometer
    conn = cm.connector(env)
    conn._tf = _FakeTF
    idx = calculate_index_list_for_appling_interferometer(tuple(modes), d, cutoff)
    n = sum(m.size for m in idx)
    psi, u = env.cplx_vec("a", n), env.cplx_vec("u", n)
    reps = [env.cplx_mat("t%d_" % k, m.shape[0]) for k, m in enumerate(idx)]
    env.functions += [core.fn_ref(pl._create_linear_passive_gate_gradient_function), core.fn_ref(pl._calculate_state_vector_after_interferometer)]
    env.holds("index lists cover the state vector once", sorted(int(i) for m in idx for i in m.reshape(-1)) == list(range(n)))
    g_psi, g_reps = pl._create_linear_passive_gate_gradient_function(psi, reps, idx, conn)(_Up(u))
    fwd_psi = lambda e: pl._calculate_state_vector_after_interferometer(_obj(env, e), reps, idx, conn)
    _vjp_check(env, "grad_state", fwd_psi, psi, [(a, _onehot(n, a)) for a in range(n)], lambda a: g_psi[a], u, str)
    for k, R in enumerate(reps):
        sz = R.shape[0]
        units = []
        for p_ in range(sz):
            for q_ in range(sz):
                E = numpy.zeros((sz, sz), dtype=complex)
                E[p_, q_] = 1.0
                units.append(((p_, q_), E))

        def fwd_R(E, k=k):
            zero = [_obj(env, numpy.zeros(r_.shape, dtype=complex)) for r_ in reps]
            zero[k] = _obj(env, E)
            return pl._calculate_state_vector_after_interferometer(psi, zero, idx, conn)
        _vjp_check(env, "grad_rep%d" % k, fwd_R, R, units, lambda a, k=k: g_reps[k][a[0], a[1]], u, str)


def h_interferometer_grad(env, d, cutoff):
    """gradient of the Fock-space representation of an interferometer with respect to its matrix: with one-hot upstreams the
    rule returns conj(d rep_p[i,j] / d U[k,l]) for ALL complex matrices U (rep is a polynomial in U; the derivative is the
    exact derivative of the terms computed by the library's own recursion)."""
    pl = importlib.import_module("piquasso._simulators.fock.pure.simulation_steps.passive_linear")
    from . import fockcommon as fc
    conn = cm.connector(env)
    conn._tf = _FakeTF
    U = env.cplx_mat("u", d)
    index_tuple = fc.helper_indices(env, d, cutoff)
    reps = conn.calculate_interferometer_on_fock_space(U, index_tuple)
    env.functions += [core.fn_ref(pl._calculate_interferometer_gradient_on_fock_space), core.fn_ref(pl._calculate_subspace_grad)]
    saved = pl._calculate_subspace_grad
    if env.mode == "sym":
        pl._calculate_subspace_grad = saved.py_func
    try:
        with cm.patched_np(env, pl):
            rule = pl._calculate_interferometer_gradient_on_fock_space(U, conn, reps, index_tuple)
            shapes = [numpy.asarray(r_, dtype=object).shape for r_ in reps]
            for p_ in range(1, cutoff):
                for i in range(shapes[p_][0]):
                    for j in range(shapes[p_][1]):
                        ups = [numpy.zeros(sh, dtype=complex) for sh in shapes]
                        ups[p_][i, j] = 1.0
                        res = rule(*[_Up(x) for x in ups])
                        for k in range(d):
                            for l in range(d):
                                if env.mode == "sym":
                                    true = diff.d_sc(env, reps[p_][i, j], "u%d%d.re" % (k, l))
                                    want = true.conjugate()
                                else:
                                    def f(x, k=k, l=l):
                                        V = numpy.array(U, dtype=complex)
                                        V[k, l] += x
                                        return conn.calculate_interferometer_on_fock_space(V, index_tuple)[p_][i, j]
                                    want = numpy.conj(_fd(f, 0.0, h=0.05))
                                env.equal("d rep%d[%d,%d] / d U[%d,%d]" % (p_, i, j, k, l), res[k][l], want)
    finally:
        pl._calculate_subspace_grad = saved


HARNESSES = {"rule": h_rule, "apply_active": h_apply_active, "apply_passive": h_apply_passive, "interferometer_grad": h_interferometer_grad}


def instances(tier):
    out = []
    for gate in ("displacement", "squeezing"):
        for c in ((2, 3, 4) if tier == "quick" else (2, 3, 4, 5, 6)):
            out.append(("rule", {"gate": gate, "cutoff": c}))
    for d, c, m in ((1, 3, 0), (2, 3, 0), (2, 3, 1)) + (((3, 3, 1), (2, 4, 1)) if tier == "thorough" else ()):
        out.append(("apply_active", {"d": d, "cutoff": c, "mode": m}))
    for d, c, m in ((2, 3, (0, 1)), (2, 3, (1,)), (3, 3, (2, 0))) + (((3, 3, (0, 1, 2)), (3, 4, (1, 2))) if tier == "thorough" else ()):
        out.append(("apply_passive", {"d": d, "cutoff": c, "modes": list(m)}))
    for d, c in ((2, 3), (2, 4), (3, 3)) + (((3, 4), (2, 5)) if tier == "thorough" else ()):
        out.append(("interferometer_grad", {"d": d, "cutoff": c}))
    return out


EXPLANATION = (
    "Bounded symbolic verification of the hand-written gradient rules at NumPy level (the part of C10 that is piquasso's own mathematics). The displacement / "
    "squeezing Fock matrix T(r, phi) is built by the library's own recursion on symbolic parameters; its exact partial derivatives are obtained by the chain rule "
    "over the executed terms (every atom - cos/sin, cosh/sinh, exp(-r^2/2), sqrt(sech r), reciprocals - is a known function of a known argument); the real gradient "
    "closures are run with one-hot upstream matrices and z3 decides, for ALL r and phi, that each returned sum equals the real / imaginary part of dT[j,k]/dr and "
    "dT[j,k]/dphi.  This covers every entry up to the cutoff in the bound, including the rolled-in last rows/columns the rule's comment reasons about."
)


def run(rep, tier, seed, opts):
    inst = instances(tier)
    if opts.get("only"):
        inst = [i for i in inst if opts["only"] in i[0] or opts["only"] in str(i[1])]
    rep.bounds = {"cutoff": "2..4 (quick) / 2..6 (thorough)", "parameters": "all real r, phi",
                  "outside": "TensorFlow / JAX autodiff and compiled execution (no symbolic semantics of those runtimes), the reduction convention of tf.custom_gradient, the non-static upstream path (tf.math calls), "
                             "the gradient rules of gate application and of the interferometer representation, the FFI permanent VJP (C++), batched states"}
    o = {"timeout_s": 60 if tier == "quick" else 300, "instance_timeout_s": 1200, "seed": seed, "validation_points": 2}
    for r in core.run_instances(__name__, inst, o, jobs=opts.get("jobs")):
        rep.add_instance_result(__name__, r)
    return rep.finish(level="other", explanation=EXPLANATION)
