"""C03 - shot accounting and the chain rule of measurement hold (E-CH + E-XA)."""
import itertools

import numpy

import piquasso as pq
from piquasso.api import simulator as _sim, result as _res, branch as _br
from piquasso import _utils as putils
from piquasso._simulators.fock.pure import simulation_steps as psteps
from piquasso._simulators.fock.pure.simulation_steps import utils as psutils
from piquasso._simulators.fock.pure.state import PureFockState
from piquasso._simulators.fock.general import state as gstate_mod
from piquasso._simulators.fock.general.state import FockState
from piquasso._simulators.fock import simulation_steps as fsteps

from .. import xa, core, ch
from . import common as cm
from . import fockcommon as fc
from . import C12

# ----------------------------------------------------------------------------- finite shots (E-CH)
EXTRA = '''

CUTS = []

import types as _types
import piquasso.api.result as _resmod


class _AnyPermutation:
    """stub for random.Random(seed).shuffle in Result.samples: the identity permutation (every checked
    quantity is invariant under permutations of the sample list; CrossHair would otherwise treat the
    generator's draws as symbolic)"""
    def __init__(self, *a, **k):
        pass
    def shuffle(self, x):
        pass


_resmod.random = _types.SimpleNamespace(Random=_AnyPermutation)


def _pick(c, hi):
    """the solver-chosen count as a concrete int in 0..hi (one path per value), so that no symbolic
    value reaches Fraction / random (C level)"""
    for v in range(hi + 1):
        if c == v:
            return v
    return hi


def pstep(state, instruction, shots):
    """a sampling measurement obeying its contract: an arbitrary (solver-chosen) partition of `shots`
    into positive counts over up to three outcomes"""
    s = shots
    k0 = _pick(CUTS.pop(0), s) if CUTS else s
    k1 = _pick(CUTS.pop(0), s - k0) if CUTS else s - k0
    k2 = s - k0 - k1
    out = []
    for o, k in ((0, k0), (1, k1), (2, k2)):
        if k > 0:
            new = DummyState(state.d - len(instruction.modes), state._connector, state._config)
            out.append(Branch(state=new, outcome=(o,) * len(instruction.modes), frequency=Fraction(k, s)))
    return out


class PM(pq.Measurement):
    def __init__(self):
        super().__init__()


Sim._instruction_map = {G1: step, G2: step, M: mstep, PM: pstep}
Sim._measurement_classes_allowed_mid_circuit = (M, PM)


def accounting(n, c0, c1, c2, c3, c4, c5, m1, m2, cond_outcome):
    """program: PM(m1); G1 conditioned on the first outcome == cond_outcome with an outcome-dependent
    parameter; PM(m2); G1 on the remaining mode with a parameter depending on both outcomes."""
    CUTS[:] = [c0, c1, c2, c3, c4, c5]
    rest = [x for x in range(3) if x not in (m1, m2)][0]
    prog = pq.Program(instructions=[
        PM().on_modes(m1),
        G1(lambda x: 0.1 * x[0]).on_modes(rest).when(lambda x: x[-1] == cond_outcome),
        PM().on_modes(m2),
        G1("x[0] + x[1]").on_modes(rest),
    ])
    _arm(-1, -1)
    r = Sim(d=3).execute(prog, shots=n)
    fr = [b.frequency for b in r.branches]
    counts = [f * n for f in fr]
    samples = r.samples
    ok = len(samples) == n
    ok = ok and sum(fr) == 1
    ok = ok and all(c.denominator == 1 and c.numerator >= 1 for c in counts)
    ok = ok and sum(c.numerator for c in counts) == n
    ok = ok and all(len(b.outcome) == 2 for b in r.branches)
    ok = ok and len(set(b.outcome for b in r.branches)) == len(r.branches)
    gc = r.get_counts()
    ok = ok and sum(gc.values()) == n and all(samples.count(o) == k for o, k in gc.items())
    ok = ok and set(r.outcome_map) == set(b.outcome for b in r.branches)
    return ok
'''


def conditions(tier):
    """the first measurement's partition (k0, k1, N-k0-k1) is enumerated as separate conditions; the
    partitions returned for each of its branches and the conditioning outcome stay symbolic."""
    parts, conds = [], []
    nmax = 4 if tier == "quick" else 7
    for n in range(1, nmax + 1):
        for (m1, m2) in ((0, 1), (2, 0), (1, 2)) if tier == "thorough" else ((2, 0),):
            for k0 in range(n + 1):
                for k1 in range(n - k0 + 1):
                    fn = "acct_n%d_m%d%d_k%d_%d" % (n, m1, m2, k0, k1)
                    parts.append('def %s(c2: int, c3: int, c4: int, c5: int, cond_outcome: int) -> bool:\n    """\n'
                                 '    pre: all(0 <= c <= %d for c in (c2, c3, c4, c5)) and 0 <= cond_outcome <= 2\n    post: _\n    """\n'
                                 '    return accounting(%d, %d, %d, c2, c3, c4, c5, %d, %d, cond_outcome)\n\n' % (fn, n, n, k0, k1, m1, m2))
                    conds.append({"fn": fn, "timeout_s": 60 if n <= 3 else 120,
                                  "desc": "shots=%d, first measurement split (%d,%d,%d): second-level partitions and the conditioning outcome symbolic: len(samples)==N, frequencies "
                                          "k/N with positive integer k summing to 1, counts sum to N, get_counts/outcome_map consistent" % (n, k0, k1, n - k0 - k1)})
    parts.append('def twin_acct(c2: int, c3: int) -> bool:\n    """\n    pre: 0 <= c2 <= 3 and 0 <= c3 <= 3\n    post: False\n    """\n    return accounting(3, 1, 1, c2, c3, 1, 1, 2, 0, 1)\n\n')
    conds.append({"fn": "twin_acct", "twin": True})
    return "".join(parts), conds


# ----------------------------------------------------------------------------- shots=None chain rule (E-XA)
def _measure(env, state, modes):
    inst = pq.ParticleNumberMeasurement().on_modes(*modes)
    with cm.patched_np(env, psteps, putils, gstate_mod, psutils, fsteps):
        return psteps.particle_number_measurement(state, inst, None)


def _pure_state(env, d, cutoff, conn, cfg, name="a"):
    psi, b = fc.generic_state_vector(env, d, cutoff, name)
    st = PureFockState(d=d, connector=conn, config=cfg)
    st.state_vector = psi
    return st, psi, b


def h_exact_weights(env, d, cutoff, modes):
    """shots=None on the real pure-Fock measurement: branch weights are the exact outcome
    probabilities (they sum to the squared norm of the measured state), every branch state is the
    normalised projection on the remaining modes."""
    modes = tuple(modes)
    conn = cm.connector(env)
    cfg = cm.config(env, cutoff=cutoff)
    st, psi, b = _pure_state(env, d, cutoff, conn, cfg)
    env.functions += [core.fn_ref(psteps.particle_number_measurement), core.fn_ref(psutils.project_to_subspace), core.fn_ref(fsteps.get_projection_operator_indices),
                      core.fn_ref(FockState.reduced), core.fn_ref(FockState.fock_probabilities_map), core.fn_ref(putils.sample_from_probability_map)]
    env.stubs.append("module-global np of the measurement modules -> pqverif numpy facade; np.isclose(p, 0) is decided exactly (p == 0) by path exploration")
    branches = _measure(env, st, modes)
    np = env.np
    norm2 = sum(abs(x) ** 2 for x in psi) if env.mode == "num" else sum((xa.SC.lift(x).abs2() for x in psi), xa.SC(xa.ZERO))
    total = 0
    rest = [m for m in range(d) if m not in modes]
    for br in branches:
        total = total + br.frequency
        out = tuple(int(x) for x in br.outcome)
        # oracle: probability of `out` = sum over basis states with these occupations on `modes`
        idx = [i for i, v in enumerate(b) if tuple(v[m] for m in modes) == out]
        p = sum(abs(psi[i]) ** 2 for i in idx) if env.mode == "num" else sum((xa.SC.lift(psi[i]).abs2() for i in idx), xa.SC(xa.ZERO))
        env.equal("weight%s" % (out,), br.frequency, p)
        new = br.state
        nb = fc.basis(len(rest), cutoff - sum(out))
        for j, w in enumerate(nb):
            full = [0] * d
            for mm, o in zip(modes, out):
                full[mm] = o
            for mm, o in zip(rest, w):
                full[mm] = o
            i = b.index(tuple(full))
            # normalised projection: amplitude * sqrt(p) == original amplitude
            env.equal("branch%s amp%s * sqrt(p)" % (out, w), new.state_vector[j] * np.sqrt(p), psi[i])
    env.equal("weights sum to the squared norm", total, norm2)


def h_sequential_vs_joint(env, d, cutoff, first, second):
    """measuring `first` and then `second` gives the same joint weights as measuring them together."""
    first, second = tuple(first), tuple(second)
    conn = cm.connector(env)
    cfg = cm.config(env, cutoff=cutoff)
    st, psi, b = _pure_state(env, d, cutoff, conn, cfg)
    st2 = PureFockState(d=d, connector=conn, config=cfg)
    st2.state_vector = psi.copy()
    env.functions += [core.fn_ref(psteps.particle_number_measurement), core.fn_ref(_sim.Simulator._remap_modes), core.fn_ref(_sim.Simulator._delete_modes_from_active)]
    joint = {tuple(int(x) for x in br.outcome): br.frequency for br in _measure(env, st2, first + second)}
    seq = {}
    active = tuple(range(d))
    for br in _measure(env, st, first):
        o1 = tuple(int(x) for x in br.outcome)
        act2 = _sim.Simulator._delete_modes_from_active(active, _sim.Simulator._remap_modes(active, first))
        modes2 = _sim.Simulator._remap_modes(act2, second)
        for br2 in _measure(env, br.state, modes2):
            o2 = tuple(int(x) for x in br2.outcome)
            seq[o1 + o2] = br.frequency * br2.frequency
    for o in sorted(set(joint) | set(seq)):
        env.equal("joint%s" % (o,), seq.get(o, 0), joint.get(o, 0))


# ----------------------------------------------------------------------------- finite shots by solver-guided path enumeration
class PInt:
    """a solver-chosen integer: comparisons are decided per path by the explorer"""
    def __init__(self, e):
        self.e = e
    def __eq__(self, o):
        return xa.SymBool(self.e == (o.e if isinstance(o, PInt) else int(o)))
    __hash__ = None


def _pick(c, hi):
    if not isinstance(c, PInt):
        return max(0, min(int(c), hi))
    for v in range(hi + 1):
        if bool(c == v):
            return v
    return hi


_PLAIN = {}


def _plain_ns():
    if not _PLAIN:
        ns = {}
        exec(compile(C12.HEADER + EXTRA, "<C03 plain harness>", "exec"), ns)
        ns["_pick"] = _pick
        _PLAIN.update(ns)
    return _PLAIN


def h_accounting(env, n, m1, m2):
    """the real branch-tree bookkeeping with sampling measurements stubbed by their contract; the
    explorer enumerates every feasible partition history (solver-chosen counts) and the conditioning
    outcome; on each path the accounting invariants must hold."""
    ns = _plain_ns()
    cs = [env.ivar("c%d" % i, 0, n) for i in range(6)]
    cond = env.ivar("cond", 0, 2)
    if env.mode == "sym":
        cs = [PInt(c) for c in cs]
        cond = PInt(cond)
    ok = ns["accounting"](n, cs[0], cs[1], cs[2], cs[3], cs[4], cs[5], m1, m2, cond)
    env.functions += [core.fn_ref(_sim.Simulator._apply_instruction_to_branches), core.fn_ref(_res.Result.samples), core.fn_ref(_res.Result.get_counts)]
    env.holds("accounting invariants (len(samples)==N, k/N frequencies, sums, get_counts, outcome_map)", bool(ok))


def _sample_acct(rng, n, m1, m2):
    v = {"c%d" % i: rng.randint(0, n) for i in range(6)}
    v["cond"] = rng.randint(0, 2)
    return v


h_accounting.sampler = _sample_acct

HARNESSES = {"exact_weights": h_exact_weights, "sequential_vs_joint": h_sequential_vs_joint, "accounting": h_accounting}


def instances(tier):
    out = []
    cfgs = [(2, 2, (0,)), (2, 2, (1,)), (2, 3, (1,)), (3, 2, (1,)), (3, 2, (2, 0))] if tier == "quick" else \
        [(2, 2, (0,)), (2, 3, (0,)), (2, 3, (1,)), (3, 2, (1,)), (3, 2, (2, 0)), (3, 3, (0,)), (3, 3, (2,)), (3, 3, (1, 0)), (2, 4, (1,))]
    for d, c, m in cfgs:
        out.append(("exact_weights", {"d": d, "cutoff": c, "modes": list(m)}))
    seqs = [(2, 2, (0,), (1,)), (3, 2, (2,), (0,))] if tier == "quick" else [(2, 2, (0,), (1,)), (2, 3, (1,), (0,)), (3, 2, (2,), (0,)), (3, 2, (1,), (2, 0)), (3, 3, (0,), (2,))]
    for d, c, f, s_ in seqs:
        out.append(("sequential_vs_joint", {"d": d, "cutoff": c, "first": list(f), "second": list(s_)}))
    for n in range(1, 6 if tier == "quick" else 9):
        for (m1, m2) in ((2, 0),) if tier == "quick" else ((0, 1), (2, 0), (1, 2)):
            out.append(("accounting", {"n": n, "m1": m1, "m2": m2}))
    return out


EXPLANATION = (
    "Finite shots: CrossHair runs the real branch-tree bookkeeping (Simulator._apply_instruction_to_branches, Result.samples/get_counts/outcome_map, Fraction "
    "frequencies) with sampling measurements stubbed by their contract - an arbitrary, solver-chosen partition of the branch's shot budget over up to three "
    "outcomes - together with a conditioned gate and outcome-dependent parameters, and confirms the accounting invariants for every N in the bound. "
    "shots=None: the real pure-Fock particle-number measurement is executed on symbolic amplitudes; z3 decides on every path (which outcomes have probability "
    "exactly zero) that the branch weights are the exact outcome probabilities summing to the squared norm, that each branch state is the normalised "
    "projection, and that sequential measurement of two mode sets has the joint weights of measuring them together."
)


def run(rep, tier, seed, opts):
    only = opts.get("only")
    inst = instances(tier)
    if only:
        inst = [i for i in inst if only in i[0] or only in str(i[1])]
    if inst:
        o = {"timeout_s": 60 if tier == "quick" else 300, "instance_timeout_s": 900 if tier == "quick" else 3000, "seed": seed, "validation_points": 1,
             "path_budget": 20000 if tier == "quick" else 200000, "light_paths": True}
        for r in core.run_instances(__name__, inst, o, jobs=opts.get("jobs")):
            rep.add_instance_result(__name__, r)
    wsrc, conds = "", []      # the CrossHair formulation of the accounting check was replaced by h_accounting (too slow per path)
    for f in (_sim.Simulator._apply_instruction_to_branches, _sim.Simulator._do_execute_instructions, _res.Result.samples, _res.Result.get_counts, _res.Result.outcome_map, _br.Branch.__init__):
        rep.note_function(f)
    rep.stubs.append("random.Random(seed).shuffle in Result.samples -> identity permutation (checked quantities are permutation invariant)")
    rep.stubs.append("sampling measurement -> contract stub: any partition of the shot budget into positive counts over <= 3 outcomes (the samplers' own distributions are C02)")
    rep.bounds = {"shots": "1..4 (quick) / 1..7 (thorough)", "measurements": 2, "exact weights": "pure Fock, d<=3, cutoff<=3 (4)",
                  "outside": "mixed-state and passive simulators' shots=None branches, Gaussian conditional states (C08), more than two measurements"}
    if conds:
        ch.run_conditions(rep, C12.HEADER + EXTRA + "\n\n" + wsrc, conds, timeout_s=90, per_path=20, jobs=opts.get("jobs"))
    return rep.finish(level="other", explanation=EXPLANATION)
