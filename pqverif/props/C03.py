"""C03 - shot accounting and the chain rule of measurement hold (E-CH + E-XA)."""
import itertools

import numpy

import piquasso as pq
from piquasso.api import simulator as _sim, result as _res, branch as _br
from piquasso import _utils as putils
from piquasso._simulators.fock.pure import simulation_steps as psteps
from piquasso._simulators.fock.pure.simulation_steps import utils as psutils
from piquasso._simulators.fock.pure.state import PureFockState
from piquasso._simulators.fock.general import state as gstate_mod
from piquasso._simulators.fock.general.state import FockState
from piquasso._simulators.fock import simulation_steps as fsteps

from .. import xa, core, ch
from . import common as cm
from . import fockcommon as fc
from . import C12

# ----------------------------------------------------------------------------- finite shots (E-CH)
EXTRA = '''

CUTS = []

import types as _types
import piquasso.api.result as _resmod


class _AnyPermutation:
    """stub for random.Random(seed).shuffle in Result.samples: the identity permutation (every checked
    quantity is invariant under permutations of the sample list; CrossHair would otherwise treat the
    generator's draws as symbolic)"""
    def __init__(self, *a, **k):
        pass
    def shuffle(self, x):
        pass


_resmod.random = _types.SimpleNamespace(Random=_AnyPermutation)


def _pick(c, hi):
    """the solver-chosen count as a concrete int in 0..hi (one path per value), so that no symbolic
    value reaches Fraction / random (C level)"""
    for v in range(hi + 1):
        if c == v:
            return v
    return hi


def pstep(state, instruction, shots):
    """a sampling measurement obeying its contract: an arbitrary (solver-chosen) partition of `shots`
    into positive counts over up to three outcomes"""
    s = shots
    k0 = _pick(CUTS.pop(0), s) if CUTS else s
    k1 = _pick(CUTS.pop(0), s - k0) if CUTS else s - k0
    k2 = s - k0 - k1
    out = []
    for o, k in ((0, k0), (1, k1), (2, k2)):
        if k > 0:
            new = DummyState(state.d - len(instruction.modes), state._connector, state._config)
            out.append(Branch(state=new, outcome=(o,) * len(instruction.modes), frequency=Fraction(k, s)))
    return out


class PM(pq.Measurement):
    def __init__(self):
        super().__init__()


Sim._instruction_map = {G1: step, G2: step, M: mstep, PM: pstep}
Sim._measurement_classes_allowed_mid_circuit = (M, PM)


def accounting(n, c0, c1, c2, c3, c4, c5, m1, m2, cond_outcome):
    """program: PM(m1); G1 conditioned on the first outcome == cond_outcome with an outcome-dependent
    parameter; PM(m2); G1 on the remaining mode with a parameter depending on both outcomes."""
    CUTS[:] = [c0, c1, c2, c3, c4, c5]
    rest = [x for x in range(3) if x not in (m1, m2)][0]
    prog = pq.Program(instructions=[
        PM().on_modes(m1),
        G1(lambda x: 0.1 * x[0]).on_modes(rest).when(lambda x: x[-1] == cond_outcome),
        PM().on_modes(m2),
        G1("x[0] + x[1]").on_modes(rest),
    ])
    _arm(-1, -1)
    r = Sim(d=3).execute(prog, shots=n)
    fr = [b.frequency for b in r.branches]
    counts = [f * n for f in fr]
    samples = r.samples
    ok = len(samples) == n
    ok = ok and sum(fr) == 1
    ok = ok and all(c.denominator == 1 and c.numerator >= 1 for c in counts)
    ok = ok and sum(c.numerator for c in counts) == n
    ok = ok and all(len(b.outcome) == 2 for b in r.branches)
    ok = ok and len(set(b.outcome for b in r.branches)) == len(r.branches)
    gc = r.get_counts()
    ok = ok and sum(gc.values()) == n and all(samples.count(o) == k for o, k in gc.items())
    ok = ok and set(r.outcome_map) == set(b.outcome for b in r.branches)
    return ok
'''


def conditions(tier):
    """the first measurement's partition (k0, k1, N-k0-k1) is enumerated as separate conditions; the
    partitions returned for each of its branches and the conditioning outcome stay symbolic."""
    parts, conds = [], []
    nmax = 4 if tier == "quick" else 7
    for n in range(1, nmax + 1):
        for (m1, m2) in ((0, 1), (2, 0), (1, 2)) if tier == "thorough" else ((2, 0),):
            for k0 in range(n + 1):
                for k1 in range(n - k0 + 1):
                    fn = "acct_n%d_m%d%d_k%d_%d" % (n, m1, m2, k0, k1)
                    parts.append('def %s(c2: int, c3: int, c4: int, c5: int, cond_outcome: int) -> bool:\n    """\n'
                                 '    pre: all(0 <= c <= %d for c in (c2, c3, c4, c5)) and 0 <= cond_outcome <= 2\n    post: _\n    """\n'
                                 '    return accounting(%d, %d, %d, c2, c3, c4, c5, %d, %d, cond_outcome)\n\n' % (fn, n, n, k0, k1, m1, m2))
                    conds.append({"fn": fn, "timeout_s": 60 if n <= 3 else 120,
                                  "desc": "shots=%d, first measurement split (%d,%d,%d): second-level partitions and the conditioning outcome symbolic: len(samples)==N, frequencies "
                                          "k/N with positive integer k summing to 1, counts sum to N, get_counts/outcome_map consistent" % (n, k0, k1, n - k0 - k1)})
    parts.append('def twin_acct(c2: int, c3: int) -> bool:\n    """\n    pre: 0 <= c2 <= 3 and 0 <= c3 <= 3\n    post: False\n    """\n    return accounting(3, 1, 1, c2, c3, 1, 1, 2, 0, 1)\n\n')
    conds.append({"fn": "twin_acct", "twin": True})
    return "".join(parts), conds


# ----------------------------------------------------------------------------- shots=None chain rule (E-XA)
def _measure(env, state, modes):
    inst = pq.ParticleNumberMeasurement().on_modes(*modes)
    with cm.patched_np(env, psteps, putils, gstate_mod, psutils, fsteps):
        return psteps.particle_number_measurement(state, inst, None)


def _pure_state(env, d, cutoff, conn, cfg, name="a"):
    psi, b = fc.generic_state_vector(env, d, cutoff, name)
    st = PureFockState(d=d, connector=conn, config=cfg)
    st.state_vector = psi
    return st, psi, b


def h_exact_weights(env, d, cutoff, modes):
    """shots=None on the real pure-Fock measurement: branch weights are the exact outcome
    probabilities (they sum to the squared norm of the measured state), every branch state is the
    normalised projection on the remaining modes."""
    modes = tuple(modes)
    conn = cm.connector(env)
    cfg = cm.config(env, cutoff=cutoff)
    st, psi, b = _pure_state(env, d, cutoff, conn, cfg)
    env.functions += [core.fn_ref(psteps.particle_number_measurement), core.fn_ref(psutils.project_to_subspace), core.fn_ref(fsteps.get_projection_operator_indices),
                      core.fn_ref(FockState.reduced), core.fn_ref(FockState.fock_probabilities_map), core.fn_ref(putils.sample_from_probability_map)]
    env.stubs.append("module-global np of the measurement modules -> pqverif numpy facade; np.isclose(p, 0) is decided exactly (p == 0) by path exploration")
    branches = _measure(env, st, modes)
    np = env.np
    norm2 = sum(abs(x) ** 2 for x in psi) if env.mode == "num" else sum((xa.SC.lift(x).abs2() for x in psi), xa.SC(xa.ZERO))
    total = 0
    rest = [m for m in range(d) if m not in modes]
    for br in branches:
        total = total + br.frequency
        out = tuple(int(x) for x in br.outcome)
        # oracle: probability of `out` = sum over basis states with these occupations on `modes`
        idx = [i for i, v in enumerate(b) if tuple(v[m] for m in modes) == out]
        p = sum(abs(psi[i]) ** 2 for i in idx) if env.mode == "num" else sum((xa.SC.lift(psi[i]).abs2() for i in idx), xa.SC(xa.ZERO))
        env.equal("weight%s" % (out,), br.frequency, p)
        new = br.state
        nb = fc.basis(len(rest), cutoff - sum(out))
        for j, w in enumerate(nb):
            full = [0] * d
            for mm, o in zip(modes, out):
                full[mm] = o
            for mm, o in zip(rest, w):
                full[mm] = o
            i = b.index(tuple(full))
            # normalised projection: amplitude * sqrt(p) == original amplitude
            env.equal("branch%s amp%s * sqrt(p)" % (out, w), new.state_vector[j] * np.sqrt(p), psi[i])
    env.equal("weights sum to the squared norm", total, norm2)


def h_sequential_vs_joint(env, d, cutoff, first, second):
    """measuring `first` and then `second` gives the same joint weights as measuring them together."""
    first, second = tuple(first), tuple(second)
    conn = cm.connector(env)
    cfg = cm.config(env, cutoff=cutoff)
    st, psi, b = _pure_state(env, d, cutoff, conn, cfg)
    st2 = PureFockState(d=d, connector=conn, config=cfg)
    st2.state_vector = psi.copy()
    env.functions += [core.fn_ref(psteps.particle_number_measurement), core.fn_ref(_sim.Simulator._remap_modes), core.fn_ref(_sim.Simulator._delete_modes_from_active)]
    joint = {tuple(int(x) for x in br.outcome): br.frequency for br in _measure(env, st2, first + second)}
    seq = {}
    active = tuple(range(d))
    for br in _measure(env, st, first):
        o1 = tuple(int(x) for x in br.outcome)
        act2 = _sim.Simulator._delete_modes_from_active(active, _sim.Simulator._remap_modes(active, first))
        modes2 = _sim.Simulator._remap_modes(act2, second)
        for br2 in _measure(env, br.state, modes2):
            o2 = tuple(int(x) for x in br2.outcome)
            seq[o1 + o2] = br.frequency * br2.frequency
    for o in sorted(set(joint) | set(seq)):
        env.equal("joint%s" % (o,), seq.get(o, 0), joint.get(o, 0))


def _passive_oracle(env, U, inp, post_modes, post_photons, modes):
    """P(postselected photons on post_modes AND outcome on `modes`) for every outcome, from the definition:
    sum over the occupations of the other modes of |<occ| Phi(U) |inp>|^2 (permanent by its defining sum)"""
    d = len(inp)
    n = int(sum(inp))
    out = {}
    for occ in fc.sector(d, n):
        if any(occ[m] != p_ for m, p_ in zip(post_modes, post_photons)):
            continue
        amp = fc.fock_element(env, U, occ, tuple(int(x) for x in inp))
        w = amp * env.np.conj(amp)
        key = tuple(occ[m] for m in modes)
        out[key] = out[key] + w if key in out else w
    return out


def h_passive_sequential(env, first, second):
    """PassiveSimulator, shots=None, generic complex 3x3 transfer matrix, input |1,1,0>: through the real Simulator pipeline
    (active-mode remapping) and the real passive measurement step, (a) a joint partial measurement of (first, second) has the
    exact joint marginal probabilities as weights, (b) measuring `first` and then `second` is not refused and (c) gives the
    same joint weights.  The marginal-probability kernel (binomial moments, numba) is a contract stub: its defining sum."""
    from piquasso._simulators.passive import state as pstate, simulation_steps as passteps
    from piquasso._simulators.passive.state import PassiveState
    d, inp = 3, (1, 1, 0)
    conn = cm.connector(env)
    cfg0 = cm.config(env)
    # a physical (unitary by construction) transfer matrix: three real beamsplitter blocks with symbolic angles
    U = None
    for k, (modes, phi) in enumerate((((0, 1), True), ((1, 2), False), ((0, 1), False))):
        blk = pq.Beamsplitter(env.param("t%d" % k), env.param("f%d" % k) if phi else 0.0)._get_passive_block(conn, cfg0)
        E = cm.embed(env, blk, modes, d)
        U = E if U is None else E @ U

    def mk():
        st = PassiveState(d=d, connector=conn, config=pq.Config(validate=False, cutoff=3))
        st.interferometer = U.copy()
        st._occupation_numbers = [numpy.array(inp)]
        st._coefficients = [1.0]
        return st
    real = pstate.get_marginal_fock_probabilities
    if env.mode == "sym":
        def stub(input_photons, interferometer, postselected_modes, postselected_photons, marginal_modes):
            return _passive_oracle(env, interferometer, input_photons, postselected_modes, postselected_photons, marginal_modes)
        pstate.get_marginal_fock_probabilities = stub
        env.stubs.append("passive.marginal.get_marginal_fock_probabilities -> its defining sum over permanents (validated against the kernel at random points)")
    env.functions += [core.fn_ref(passteps.particle_number_measurement), core.fn_ref(PassiveState._set_postselection), core.fn_ref(PassiveState.get_marginal_fock_probabilities),
                      core.fn_ref(_sim.Simulator._do_execute_instructions)]
    try:
        sim = pq.PassiveSimulator(d=d, config=pq.Config(validate=False, cutoff=3), connector=conn)
        want = _passive_oracle(env, U, inp, (), (), (first, second))
        r = sim.execute_instructions([pq.ParticleNumberMeasurement().on_modes(first, second)], initial_state=mk(), shots=None)
        joint = {tuple(int(x) for x in b.outcome): b.frequency for b in r.branches}
        for o in sorted(set(want) | set(joint)):
            env.equal("joint measurement weight%s" % (o,), joint.get(o, 0), want.get(o, 0))
        try:
            r2 = sim.execute_instructions([pq.ParticleNumberMeasurement().on_modes(first), pq.ParticleNumberMeasurement().on_modes(second)], initial_state=mk(), shots=None)
        except pq.api.exceptions.PiquassoException as e:
            env.holds("sequential measurement accepted (%s)" % str(e)[:60], False)
            return
        env.holds("sequential measurement accepted", True)
        seq = {}
        for b in r2.branches:
            o = tuple(int(x) for x in b.outcome)
            seq[o] = seq[o] + b.frequency if o in seq else b.frequency
        # independent of any per-branch normalisation: within one first outcome the second outcomes have the right ratios,
        # i.e. the second measurement addressed the physical mode the user named
        keys = sorted(set(want) | set(seq))
        for i_, o in enumerate(keys):
            for o_ in keys[i_ + 1:]:
                if o[0] == o_[0]:
                    env.equal("second measurement on the named mode: ratio %s : %s" % (o, o_), seq.get(o, 0) * want.get(o_, 0), seq.get(o_, 0) * want.get(o, 0))
        for o in keys:
            env.equal("sequential weight%s" % (o,), seq.get(o, 0), want.get(o, 0))
    finally:
        pstate.get_marginal_fock_probabilities = real


# ----------------------------------------------------------------------------- finite shots by solver-guided path enumeration
class PInt:
    """a solver-chosen integer: comparisons are decided per path by the explorer"""
    def __init__(self, e):
        self.e = e
    def __eq__(self, o):
        return xa.SymBool(self.e == (o.e if isinstance(o, PInt) else int(o)))
    __hash__ = None


def _pick(c, hi):
    if not isinstance(c, PInt):
        return max(0, min(int(c), hi))
    for v in range(hi + 1):
        if bool(c == v):
            return v
    return hi


_PLAIN = {}


def _plain_ns():
    if not _PLAIN:
        ns = {}
        exec(compile(C12.HEADER + EXTRA, "<C03 plain harness>", "exec"), ns)
        ns["_pick"] = _pick
        _PLAIN.update(ns)
    return _PLAIN


def h_accounting(env, n, m1, m2):
    """the real branch-tree bookkeeping with sampling measurements stubbed by their contract; the
    explorer enumerates every feasible partition history (solver-chosen counts) and the conditioning
    outcome; on each path the accounting invariants must hold."""
    ns = _plain_ns()
    cs = [env.ivar("c%d" % i, 0, n) for i in range(6)]
    cond = env.ivar("cond", 0, 2)
    if env.mode == "sym":
        cs = [PInt(c) for c in cs]
        cond = PInt(cond)
    ok = ns["accounting"](n, cs[0], cs[1], cs[2], cs[3], cs[4], cs[5], m1, m2, cond)
    env.functions += [core.fn_ref(_sim.Simulator._apply_instruction_to_branches), core.fn_ref(_res.Result.samples), core.fn_ref(_res.Result.get_counts)]
    env.holds("accounting invariants (len(samples)==N, k/N frequencies, sums, get_counts, outcome_map)", bool(ok))


def _sample_acct(rng, n, m1, m2):
    v = {"c%d" % i: rng.randint(0, n) for i in range(6)}
    v["cond"] = rng.randint(0, 2)
    return v


h_accounting.sampler = _sample_acct

def h_shot_arithmetic(env, nmax):
    """Shot arithmetic for ALL counts up to nmax (E-NS): the real Simulator._apply_instruction_to_branches, Result.samples,
    Result.get_counts and _get_imperfect_branch_frequencies are run from their own bytecode on symbolic counts; a branch that
    holds k of the N shots must be given exactly k shots by the next measurement (two levels deep), contribute exactly k
    samples / counts, and hand multiplicity k to the imperfect-detector resampling - whatever mixture of Fraction, float and
    int arithmetic the code uses (doubles are IEEE-754 bit-vectors for the solver)."""
    from fractions import Fraction
    import z3
    from .. import numsym as ns
    import piquasso.api.result as resmod
    import piquasso._simulators.simulation_steps as gsteps
    from piquasso.api.branch import Branch
    P = _plain_ns()
    sym = env.mode == "sym"
    N = env.bvar("N", 1, nmax)
    c = [env.bvar("c%d" % i, 1, nmax) for i in range(6)]
    if sym:
        env.assume("c0+c1==N", xa.SymBool(c[0] + c[1] == N))
        env.assume("c2+c3==c0", xa.SymBool(c[2] + c[3] == c[0]))
        env.assume("c4+c5==c1", xa.SymBool(c[4] + c[5] == c[1]))
        Nn = ns.SInt.atom("N")
        cn = [ns.SInt.atom("c%d" % i) for i in range(6)]
        frac = ns.SRat
    else:
        env.num_assumptions.append(("partitions", c[0] + c[1] == N and c[2] + c[3] == c[0] and c[4] + c[5] == c[1]))
        if not env.num_assumptions[-1][1]:
            return
        Nn, cn, frac = N, c, Fraction
    env.functions += [core.fn_ref(_sim.Simulator._apply_instruction_to_branches), core.fn_ref(_res.Result.samples), core.fn_ref(_res.Result.get_counts),
                      core.fn_ref(gsteps._get_imperfect_branch_frequencies)]
    del ns.SIDE[:]
    got = []          # (what, value handed over by the real code, the branch's count)

    def same(name, val, want):
        if isinstance(val, ns.SInt):
            env.holds(name, True if val.same(want) else xa.SymBool(val.bv == want.bv))
        else:
            env.holds(name, val == want)

    class St(P["DummyState"]):
        pass

    def mk_state(count):
        st = St(3, P["NumpyConnector"](), None)
        st.count = count
        return st

    pending = {"next": [(cn[0], cn[1]), (cn[2], cn[3]), (cn[4], cn[5])]}

    def measure_step(state, instruction, shots):
        got.append(("budget of the next measurement", shots, state.count))
        a, b = pending["next"].pop(0)
        return [Branch(state=mk_state(a), outcome=(0,), frequency=frac(a, shots)), Branch(state=mk_state(b), outcome=(1,), frequency=frac(b, shots))]

    def gate_step(state, instruction, shots):
        got.append(("budget of a later gate", shots, state.count))
        return [Branch(state=state)]

    sim = P["Sim"](d=3)
    sim._get_simulation_step = lambda instruction: measure_step if isinstance(instruction, P["M"]) else gate_step
    apply = ns.rebind(_sim.Simulator._apply_instruction_to_branches)
    P["_arm"](-1, -1)
    branches = [Branch(state=mk_state(Nn), frequency=Fraction(1))]
    branches = apply(sim, branches, P["M"]().on_modes(0), Nn)
    branches = apply(sim, branches, P["M"]().on_modes(1), Nn)
    branches = apply(sim, branches, P["G1"](0.1).on_modes(2), Nn)
    env.holds("four leaves", len(branches) == 4)
    for j, (what, val, want) in enumerate(got):
        same("%s == the branch's own count [call %d]" % (what, j), val, want)
    leaves = cn[2:6]
    parents = [cn[0], cn[0], cn[1], cn[1]]
    for j, b in enumerate(branches[:4]):
        f = b.frequency
        if isinstance(f, ns.SRat):
            ok = f.num.same(leaves[j]) and f.den.same(Nn)
            env.holds("leaf %d frequency == k/N" % j, True if ok else xa.SymBool(f.num.bv * Nn.bv == leaves[j].bv * f.den.bv))
        else:
            env.holds("leaf %d frequency == k/N" % j, f == Fraction(leaves[j], Nn))
    # the consumers of the final branches are driven with the frequencies the contract above guarantees (k/N built the way the
    # simulator builds them: the product of the two conditional fractions), so that each site is decided on its own
    branches = [Branch(state=b.state, outcome=b.outcome, frequency=frac(leaves[j], parents[j]) * frac(parents[j], Nn)) for j, b in enumerate(branches[:4])]

    class R(_res.Result):
        samples = property(ns.rebind(_res.Result.samples.fget, random=P["_types"].SimpleNamespace(Random=P["_AnyPermutation"])))
        get_counts = ns.rebind(_res.Result.get_counts)
    res = R(branches=branches, config=pq.Config(), shots=Nn)
    samples = res.samples
    if sym:
        env.holds("Result.samples lists every branch", [tuple(x.item) for x in samples] == [tuple(b.outcome) for b in branches])
        for j, x in enumerate(samples[:4]):
            same("Result.samples: branch %d contributes its count" % j, x.count, leaves[j])
    else:
        env.holds("Result.samples lists every branch", set(samples) == set(tuple(b.outcome) for b in branches))
        for j, b in enumerate(branches):
            env.holds("Result.samples: branch %d contributes its count" % j, samples.count(tuple(b.outcome)) == leaves[j])
    gc = res.get_counts()
    for j, b in enumerate(branches):
        same("Result.get_counts: branch %d" % j, gc[b.outcome], leaves[j])
    rec = []

    def sample_stub(actual_outcome, multiplicity, detector_efficiency_matrix, rng):
        rec.append(multiplicity)
        return {actual_outcome: multiplicity}
    imp = ns.rebind(gsteps._get_imperfect_branch_frequencies, _sample_detected_outcomes=sample_stub, Fraction=lambda a, b=1: frac(a, b))
    for j, b in enumerate(branches):
        out = imp(branch=b, shots=Nn, detector_efficiency_matrix=None, rng=None)
        same("imperfect detection: multiplicity of branch %d" % j, rec[-1], leaves[j])
    for label, cond in ns.SIDE:
        env.holds(label, xa.SymBool(cond))
    del ns.SIDE[:]


def h_passive_mode_map(env, d):
    """successive partial measurements on the sampling simulator: map_to_original_modes sends the j-th REMAINING mode to its
    original label for every solver-chosen ORDERED list of already measured modes (any order of measurement) and every
    compact index - the bookkeeping that makes a later measurement address the physical mode the user named."""
    from piquasso._simulators.passive import sampling as psamp
    k = env.pick_int("measured", 0, 3)
    post = []
    for i in range(k):
        m = env.pick_int("p%d" % i, 0, d - 1)
        if m in post:
            if env.mode == "sym":
                raise xa.PathAbort("distinct")
            env.num_assumptions.append(("distinct", False))
            return
        post.append(m)
    remaining = [m for m in range(d) if m not in post]
    j = env.pick_int("j", 0, len(remaining) - 1)
    j2 = env.pick_int("j2", 0, len(remaining) - 1)
    env.functions.append(core.fn_ref(psamp.map_to_original_modes))
    got = psamp.map_to_original_modes((j, j2), tuple(post))
    env.holds("compact indices map to the original labels of the remaining modes", tuple(int(x) for x in got) == (remaining[j], remaining[j2]))


def _sample_shots(rng, nmax):
    n = rng.randint(2, nmax)
    c0 = rng.randint(1, n - 1) if n > 2 else 1
    c1 = n - c0
    c2 = rng.randint(1, max(1, c0 - 1))
    c4 = rng.randint(1, max(1, c1 - 1))
    return {"N": n, "c0": c0, "c1": c1, "c2": c2, "c3": c0 - c2, "c4": c4, "c5": c1 - c4}


h_shot_arithmetic.sampler = _sample_shots

HARNESSES = {"passive_sequential": h_passive_sequential, "passive_mode_map": h_passive_mode_map, "shot_arithmetic": h_shot_arithmetic, "exact_weights": h_exact_weights, "sequential_vs_joint": h_sequential_vs_joint, "accounting": h_accounting}


def instances(tier):
    out = []
    cfgs = [(2, 2, (0,)), (2, 2, (1,)), (2, 3, (1,)), (3, 2, (1,)), (3, 2, (2, 0))] if tier == "quick" else \
        [(2, 2, (0,)), (2, 3, (0,)), (2, 3, (1,)), (3, 2, (1,)), (3, 2, (2, 0)), (3, 3, (0,)), (3, 3, (2,)), (3, 3, (1, 0)), (2, 4, (1,))]
    for d, c, m in cfgs:
        out.append(("exact_weights", {"d": d, "cutoff": c, "modes": list(m)}))
    seqs = [(2, 2, (0,), (1,)), (3, 2, (2,), (0,))] if tier == "quick" else [(2, 2, (0,), (1,)), (2, 3, (1,), (0,)), (3, 2, (2,), (0,)), (3, 2, (1,), (2, 0)), (3, 3, (0,), (2,))]
    for d, c, f, s_ in seqs:
        out.append(("sequential_vs_joint", {"d": d, "cutoff": c, "first": list(f), "second": list(s_)}))
    for f_, s_ in ((2, 0), (0, 2), (0, 1)) if tier == "quick" else ((2, 0), (0, 2), (0, 1), (1, 2), (1, 0), (2, 1)):
        out.append(("passive_sequential", {"first": f_, "second": s_}))
    out.append(("passive_mode_map", {"d": 5 if tier == "quick" else 7}))
    out.append(("shot_arithmetic", {"nmax": 4096 if tier == "quick" else 1 << 20}))
    for n in range(1, 6 if tier == "quick" else 9):
        for (m1, m2) in ((2, 0),) if tier == "quick" else ((0, 1), (2, 0), (1, 2)):
            out.append(("accounting", {"n": n, "m1": m1, "m2": m2}))
    return out


EXPLANATION = (
    "Finite shots: CrossHair runs the real branch-tree bookkeeping (Simulator._apply_instruction_to_branches, Result.samples/get_counts/outcome_map, Fraction "
    "frequencies) with sampling measurements stubbed by their contract - an arbitrary, solver-chosen partition of the branch's shot budget over up to three "
    "outcomes - together with a conditioned gate and outcome-dependent parameters, and confirms the accounting invariants for every N in the bound. "
    "shots=None: the real pure-Fock particle-number measurement is executed on symbolic amplitudes; z3 decides on every path (which outcomes have probability "
    "exactly zero) that the branch weights are the exact outcome probabilities summing to the squared norm, that each branch state is the normalised "
    "projection, and that sequential measurement of two mode sets has the joint weights of measuring them together."
)


def run(rep, tier, seed, opts):
    only = opts.get("only")
    inst = instances(tier)
    if only:
        inst = [i for i in inst if only in i[0] or only in str(i[1])]
    if inst:
        o = {"timeout_s": 60 if tier == "quick" else 300, "instance_timeout_s": 900 if tier == "quick" else 3000, "seed": seed, "validation_points": 1,
             "path_budget": 20000 if tier == "quick" else 200000, "light_paths": True}
        for r in core.run_instances(__name__, inst, o, jobs=opts.get("jobs")):
            rep.add_instance_result(__name__, r)
    wsrc, conds = "", []      # the CrossHair formulation of the accounting check was replaced by h_accounting (too slow per path)
    for f in (_sim.Simulator._apply_instruction_to_branches, _sim.Simulator._do_execute_instructions, _res.Result.samples, _res.Result.get_counts, _res.Result.outcome_map, _br.Branch.__init__):
        rep.note_function(f)
    rep.stubs.append("random.Random(seed).shuffle in Result.samples -> identity permutation (checked quantities are permutation invariant)")
    rep.stubs.append("sampling measurement -> contract stub: any partition of the shot budget into positive counts over <= 3 outcomes (the samplers' own distributions are C02)")
    rep.bounds = {"shots": "1..4 (quick) / 1..7 (thorough)", "measurements": 2, "exact weights": "pure Fock, d<=3, cutoff<=3 (4)",
                  "outside": "mixed-state and passive simulators' shots=None branches, Gaussian conditional states (C08), more than two measurements"}
    if conds:
        ch.run_conditions(rep, C12.HEADER + EXTRA + "\n\n" + wsrc, conds, timeout_s=90, per_path=20, jobs=opts.get("jobs"))
    return rep.finish(level="other", explanation=EXPLANATION)
