"""C12 - execution never modifies what the caller passed in, even on failure (E-CH fault injection).

The real Simulator.execute / execute_instructions / validate / _do_execute_instructions /
_apply_instruction_to_branches and Instruction._resolve_params / _unresolve_params run under
CrossHair; simulation steps, per-instruction validation and parameter callables are stubs that
raise at a solver-chosen (instruction index, stage).  Modes, shots and the measurement
placement are symbolic as well."""
from .. import core, ch

from piquasso.api import simulator as _sim, instruction as _ins, program as _prog, state as _state, config as _cfg

HEADER = '''from typing import Tuple
import copy
import random
from fractions import Fraction
import numpy as np
import piquasso as pq
from piquasso.api.simulator import Simulator
from piquasso.api.state import State
from piquasso.api.branch import Branch
from piquasso.api.config import Config
from piquasso.api.exceptions import PiquassoException
from piquasso._simulators.connectors import NumpyConnector


class Boom(Exception):
    pass


class DummyState(State):
    def __init__(self, d, connector, config=None):
        super().__init__(connector=connector, config=config)
        self._d = d
        self.data = [0] * d            # mutated in place by the stub steps, like real steps mutate arrays
    @property
    def d(self):
        return self._d
    @property
    def fock_probabilities(self):
        return []
    def validate(self):
        pass
    def get_particle_detection_probability(self, occupation_number):
        return 0.0


FAULT = {"idx": -1, "stage": -1, "count": 0, "vcount": 0, "pcount": 0, "ccount": 0, "met": True}


def _arm(idx, stage, met=True):
    FAULT.update(idx=idx, stage=stage, count=0, vcount=0, pcount=0, ccount=0, met=met)


def step(state, instruction, shots):
    if FAULT["stage"] == 2 and FAULT["count"] == FAULT["idx"]:
        raise Boom("step")
    FAULT["count"] += 1
    for m in instruction.modes:
        state.data[m] += 1
    return [Branch(state=state)]


def mstep(state, instruction, shots):
    if FAULT["stage"] == 2 and FAULT["count"] == FAULT["idx"]:
        raise Boom("measurement step")
    FAULT["count"] += 1
    new = DummyState(state.d - len(instruction.modes), state._connector, state._config)
    return [Branch(state=new, outcome=(1,) * len(instruction.modes), frequency=Fraction(1))]


class G1(pq.Gate):
    NUMBER_OF_MODES = 1
    def __init__(self, phi):
        super().__init__(params=dict(phi=phi))
    def _validate(self, connector):
        if FAULT["stage"] == 0 and FAULT["vcount"] == FAULT["idx"]:
            raise Boom("validate")
        FAULT["vcount"] += 1


class G2(pq.Gate):
    NUMBER_OF_MODES = 2
    def __init__(self, theta, phi=0.0):
        super().__init__(params=dict(theta=theta, phi=phi))
    def _validate(self, connector):
        if FAULT["stage"] == 0 and FAULT["vcount"] == FAULT["idx"]:
            raise Boom("validate")
        FAULT["vcount"] += 1


class M(pq.Measurement):
    def __init__(self):
        super().__init__()
    def _validate(self, connector):
        if FAULT["stage"] == 0 and FAULT["vcount"] == FAULT["idx"]:
            raise Boom("validate")
        FAULT["vcount"] += 1


class Sim(Simulator):
    _state_class = DummyState
    _default_connector_class = NumpyConnector
    _measurement_classes_allowed_mid_circuit = (M,)
    _instruction_map = {G1: step, G2: step, M: mstep}


def param_fn(x):
    if FAULT["stage"] == 1 and FAULT["pcount"] == FAULT["idx"]:
        raise Boom("parameter resolution")
    FAULT["pcount"] += 1
    return 0.25 + len(x)


def cond_fn(x):
    if FAULT["stage"] == 3 and FAULT["ccount"] == FAULT["idx"]:
        raise Boom("condition")
    FAULT["ccount"] += 1
    return FAULT["met"]


def make_program(m, a, b, mpos, kind):
    """G1 on m, a measurement of mode m at position mpos, a conditioned G2 on (a, b) with TWO
    outcome-dependent parameters (callables / expression strings, the second string one failing for
    kind 3), G1 on a with an expression parameter, and a final measurement registered without modes."""
    phi = {0: 0.5, 1: param_fn, 2: "0.5", 3: "0.5"}[kind]
    g1 = G1(phi).on_modes(m)
    theta2, phi2 = {0: (0.3, 0.1), 1: (param_fn, param_fn), 2: ("0.25", "0.75"),
                    3: ("0.25", "x[7] * 0.5")}[kind]
    g2 = G2(theta2, phi2).on_modes(a, b).when(cond_fn)
    g3 = G1("0.5" if kind >= 2 else 0.7).on_modes(a).when(cond_fn)
    meas = M().on_modes(m)
    ins = [g1, g2, g3]
    ins.insert(mpos, meas)
    ins.append(M())
    return pq.Program(instructions=ins)


def snapshot(prog, init, cfg):
    return (
        [id(i) for i in prog.instructions],
        [(type(i).__name__, i.modes, tuple(sorted((k, v if not callable(v) else id(v)) for k, v in i.params.items())),
          id(i._condition) if i._condition is not None else None, tuple(sorted(i._unresolved_params))) for i in prog.instructions],
        (init.d, tuple(init.data)) if init is not None else None,
        (cfg.cutoff, cfg.hbar, cfg.validate, cfg.use_dask, cfg.measurement_cutoff, cfg._original_seed_sequence) if cfg is not None else None,
    )


def run(prog, init, cfg, shots, d=4):
    sim = Sim(d=d, config=cfg)
    r = sim.execute(prog, shots=shots, initial_state=init)
    return [(b.outcome, b.frequency, tuple(b.state.data) if b.state is not None else None) for b in r.branches]


def unchanged_after_failure(m, a, b, mpos, kind, idx, stage, shots, met=True):
    prog = make_program(m, a, b, mpos, kind)
    cfg = Config(cutoff=5, hbar=1.5)
    init = DummyState(4, NumpyConnector(), cfg)
    init.data[0] = 7
    before = snapshot(prog, init, cfg)
    _arm(idx, stage, met)
    try:
        run(prog, init, cfg, shots)
    except (Boom, PiquassoException, ValueError):
        pass
    return snapshot(prog, init, cfg) == before


def reexecution_same_outcome(m, a, b, mpos, kind, idx, stage, met=True):
    prog = make_program(m, a, b, mpos, kind)
    fresh = make_program(m, a, b, mpos, kind)
    _arm(idx, stage, met)
    try:
        run(prog, None, None, 1)
    except (Boom, PiquassoException, ValueError):
        pass
    _arm(-1, -1, met)
    try:
        second = ("ok", run(prog, None, None, 1))
    except (PiquassoException, ValueError) as e:
        second = ("exc", type(e).__name__)
    _arm(-1, -1, met)
    try:
        ref = ("ok", run(fresh, None, None, 1))
    except (PiquassoException, ValueError) as e:
        ref = ("exc", type(e).__name__)
    return second == ref


def unchanged_after_success(m, a, b, mpos, kind, shots, met=True):
    prog = make_program(m, a, b, mpos, kind)
    cfg = Config(cutoff=5, hbar=1.5)
    init = DummyState(4, NumpyConnector(), cfg)
    before = snapshot(prog, init, cfg)
    _arm(-1, -1, met)
    ok = True
    for _ in range(2):      # twice: the objects must not drift from run to run
        try:
            run(prog, init, cfg, shots)
        except (PiquassoException, ValueError):
            pass
        ok = ok and snapshot(prog, init, cfg) == before
    return ok


def validate_and_copy_leave_program_unchanged(m, a, b, mpos, kind):
    prog = make_program(m, a, b, mpos, kind)
    before = snapshot(prog, None, None)
    try:
        Sim(d=4).validate(prog)
    except PiquassoException:
        pass
    c = prog.copy()
    ok = snapshot(prog, None, None) == before
    # the copy is independent: changing it does not reach the original
    c.instructions[0].modes = (3,)
    c.instructions[0].params["phi"] = 99
    return ok and snapshot(prog, None, None) == before
'''


PRE3 = "0 <= m <= 3 and 0 <= a <= 3 and 0 <= b <= 3 and a != b and m != a and m != b"


def wrappers(tier):
    """the symbolic quantifier is split: (parameter kind, stage, measurement position) are enumerated as
    separate conditions; modes, crash index, the truth of the conditions (and shots in the thorough
    tier) stay symbolic in each."""
    parts, conds = [], []
    mposs = (0, 2) if tier == "quick" else (0, 1, 2, 3)
    smax = 1 if tier == "quick" else 2
    stages = ["validate", "parameter resolution", "simulation step", "condition evaluation"]
    kinds = ["float", "callable (two per gate)", "expression string (two per gate)", "expression string, second one fails"]
    for kind in range(4):
        for mpos in mposs:
            for stage in range(4):
                fn = "uaf_k%d_p%d_s%d" % (kind, mpos, stage)
                parts.append('def %s(m: int, a: int, b: int, idx: int, shots: int, met: bool) -> bool:\n    """\n    pre: %s\n    pre: 0 <= idx <= 5 and 1 <= shots <= %d\n    post: _\n    """\n'
                             '    return unchanged_after_failure(m, a, b, %d, %d, idx, %d, shots, met)\n\n' % (fn, PRE3, smax, mpos, kind, stage))
                conds.append({"fn": fn, "timeout_s": 100 if kind >= 2 else 70, "desc": "caller's objects unchanged after an exception at a symbolic instruction index; stage=%s, parameter kind=%s, measurement at position %d; symbolic modes, condition truth%s"
                              % (stages[stage], kinds[kind], mpos, "" if smax == 1 else ", shots")})
                if tier == "quick" and stage != 2:
                    continue
                fn = "rex_k%d_p%d_s%d" % (kind, mpos, stage)
                parts.append('def %s(m: int, a: int, b: int, idx: int, met: bool) -> bool:\n    """\n    pre: %s\n    pre: 0 <= idx <= 5\n    post: _\n    """\n'
                             '    return reexecution_same_outcome(m, a, b, %d, %d, idx, %d, met)\n\n' % (fn, PRE3, mpos, kind, stage))
                conds.append({"fn": fn, "timeout_s": 100 if kind >= 2 else 70, "desc": "re-execution after a failed run equals a fresh program; stage=%s kind=%s mpos=%d" % (stages[stage], kinds[kind], mpos)})
            fn = "uas_k%d_p%d" % (kind, mpos)
            parts.append('def %s(m: int, a: int, b: int, shots: int, met: bool) -> bool:\n    """\n    pre: %s\n    pre: 1 <= shots <= %d\n    post: _\n    """\n'
                         '    return unchanged_after_success(m, a, b, %d, %d, shots, met)\n\n' % (fn, PRE3, 1 if tier == "quick" else 3, mpos, kind))
            conds.append({"fn": fn, "timeout_s": 100 if kind >= 2 else 70, "desc": "caller's objects unchanged after one and after two normal executions (no drift); kind=%s mpos=%d, symbolic condition truth" % (kinds[kind], mpos)})
            if kind <= 2:
                fn = "vc_k%d_p%d" % (kind, mpos)
                parts.append('def %s(m: int, a: int, b: int) -> bool:\n    """\n    pre: 0 <= m <= 5 and 0 <= a <= 5 and 0 <= b <= 5 and a != b\n    post: _\n    """\n'
                             '    return validate_and_copy_leave_program_unchanged(m, a, b, %d, %d)\n\n' % (fn, mpos, kind))
                conds.append({"fn": fn, "timeout_s": 60, "desc": "validate (incl. rejected programs) and copy leave the program unchanged; kind=%s mpos=%d" % (kinds[kind], mpos)})
    parts.append('def twin_uaf(m: int, a: int, b: int, idx: int, shots: int) -> bool:\n    """\n    pre: %s\n    pre: 0 <= idx <= 5 and 1 <= shots <= 1\n    post: False\n    """\n'
                 '    return unchanged_after_failure(m, a, b, 2, 1, idx, 2, shots, True)\n\n' % PRE3)
    conds.append({"fn": "twin_uaf", "twin": True, "timeout_s": 60})
    return "".join(parts), conds


EXPLANATION = (
    "Fault injection decided by symbolic execution: CrossHair runs the real Simulator.execute pipeline on a 4-instruction adaptive program "
    "(callable / expression-string / float parameters, a condition, a mid-circuit measurement at a symbolic position, symbolic modes and shots) with stub "
    "simulation steps; the solver chooses the crash point (instruction index x stage: per-instruction validation, parameter resolution, simulation step). "
    "Obligation: a deep snapshot of the caller's objects taken before the call equals the snapshot afterwards on every path, and re-execution of the same "
    "objects agrees with a fresh program. Native kernels (E-CX): pfaffian_cpp, permanent_cpp and permanent_laplace_cpp interpreted from clang's AST on a generic matrix leave every element of the "
    "caller's shared buffers as it was."
)


# ---------------------------------------------------------------------------------------------- native kernels' input buffers (E-CX)
def h_native_buffers(env, kernel, n):
    """the numpy buffers that the bindings hand to the native kernels by shared memory (src/numpy_utils.hpp numpy_to_matrix:
    no copy) are unchanged after the call: the kernel is interpreted from clang's AST of the current source on a generic
    matrix and every element of the caller's buffers is compared with its value before the call, on every path."""
    import numpy
    from .. import xa, si, cx, core as _core
    from . import cxcommon as cc
    env.stubs += ["Matrix / Vector handles of src/matrix.hpp = native models sharing the caller's buffer", "reals stand in for doubles"]
    if kernel == "pfaffian":
        prog = cc.program("pfaffian")
        env.functions += cc.fn_refs(prog, "pfaffian_cpp<double> (clang-14 AST)")
        M = numpy.empty((n, n), dtype=object)
        for i in range(n):
            M[i, i] = 0
            for j in range(i + 1, n):
                v = env.real("a%d%d" % (i, j))
                M[i, j] = v
                M[j, i] = -v
        before = [M[i, j] for i in range(n) for j in range(n)]
        if env.mode == "sym":
            fn = prog.find(None, "pfaffian_cpp", 1, pick="double (Matrix<double>")
            buf = list(before)
            it = cx.Interp(prog, env)
            it.call(fn, [cx.Ref([cx.Mat(n, n, cx.Ptr(buf))], 0)])
            after = buf
        else:
            cc.native_pfaffian(numpy.array(M, dtype=float))
            after = cc.LAST["pfaffian_after"]
        for k in range(n * n):
            env.equal("caller's matrix element %d unchanged" % k, after[k], before[k])
        return
    rows, cols = {2: ((2, 1), (1, 2)), 3: ((2, 0, 1), (1, 1, 1))}[n]
    A = env.cplx_mat("a", n)
    before = [A[i, j] for i in range(n) for j in range(n)]
    which = "permanent" if kernel == "permanent" else "laplace"
    if kernel == "laplace":
        cols = tuple(c + (1 if j == 0 else 0) for j, c in enumerate(cols))
    prog = cc.program(which)
    env.functions += cc.fn_refs(prog, "%s (clang-14 AST)" % ("permanent_cpp<double>" if which == "permanent" else "permanent_laplace_cpp<double>"))
    if env.mode == "sym":
        fn = prog.find(None, "permanent_cpp" if which == "permanent" else "permanent_laplace_cpp", 3, pick="complex<double>")
        abuf, rbuf, cbuf = list(before), list(rows), list(cols)
        it = cx.Interp(prog, env, hardware_concurrency=si.SI(env.ivar("n_threads", 1, 64), 32))
        it.call(fn, [cx.Ref([cx.Mat(n, n, cx.Ptr(abuf))], 0), cx.Ref([cx.Mat(1, n, cx.Ptr(rbuf), True)], 0), cx.Ref([cx.Mat(1, n, cx.Ptr(cbuf), True)], 0)])
    else:
        hc = env.ivar("n_threads", 1, 64)
        cc.native_permanent(numpy.array(A, dtype=complex), rows, cols, hc, "P" if which == "permanent" else "L")
        abuf, rbuf, cbuf = cc.LAST["perm_after"]
    for k in range(n * n):
        env.equal("caller's matrix element %d unchanged" % k, abuf[k], before[k])
    env.holds("caller's row / column multiplicities unchanged", list(rbuf) == list(rows) and list(cbuf) == list(cols))


HARNESSES = {"native_buffers": h_native_buffers}


def run(rep, tier, seed, opts):
    from .. import core as _core
    inst = [("native_buffers", {"kernel": k, "n": n}) for k, n in (("pfaffian", 2), ("pfaffian", 4), ("permanent", 2), ("permanent", 3), ("laplace", 2), ("laplace", 3))]
    if not opts.get("only") or "native" in opts["only"]:
        o = {"timeout_s": 60, "instance_timeout_s": 600, "seed": seed, "validation_points": 2, "path_budget": 200, "som_blowup": True}
        for r in _core.run_instances(__name__, inst, o, jobs=opts.get("jobs")):
            rep.add_instance_result(__name__, r)
        if opts.get("only"):
            return rep.finish(level="other", explanation=EXPLANATION)
    wsrc, conds = wrappers(tier)
    source = HEADER + "\n\n" + wsrc
    if opts.get("only"):
        conds = [c for c in conds if opts["only"] in c["fn"]]
    if tier == "thorough":
        for c in conds:
            c["timeout_s"] = c.get("timeout_s", 60) * 4
    for f in (_sim.Simulator.execute, _sim.Simulator.execute_instructions, _sim.Simulator.validate, _sim.Simulator._do_execute_instructions,
              _sim.Simulator._apply_instruction_to_branches, _sim.Simulator._remap_modes, _sim.Simulator._delete_modes_from_active,
              _ins.Instruction._resolve_params, _ins.Instruction._unresolve_params, _ins.Instruction.on_modes, _ins.Instruction._is_condition_met,
              _prog.Program.copy, _state.State.__init__, _state.State.copy, _cfg.Config.copy, _sim.Simulator.__init__):
        rep.note_function(f)
    rep.stubs += ["simulation steps -> stubs that mutate the working state in place and raise at the armed crash point",
                  "Instruction._validate of the harness' gate classes -> raises at the armed crash point",
                  "callable parameter -> raises at the armed crash point (wrapped by _resolve_params into InvalidParameter)"]
    rep.bounds = {"instructions": 5, "modes": "symbolic in 0..3 on d=4", "crash index": "0..5", "stages": 4, "shots": "1..2 (failure), 1..3 (success)",
                  "parameter kinds": ["float", "callable", "expression string"],
                  "native buffers": "pfaffian_cpp n = 2, 4; permanent_cpp / permanent_laplace_cpp on 2 and 3 modes (one multiplicity pattern each)",
                  "outside": "numpy array parameters of instructions, TF/JAX tensors, torontonian kernels' buffers, real simulation steps"}
    ch.run_conditions(rep, source, conds, timeout_s=120, per_path=20, jobs=opts.get("jobs"))
    return rep.finish(level="other", explanation=EXPLANATION)
