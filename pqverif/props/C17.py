"""C17 - the fermionic simulators agree with each other and with exclusion (E-XA)."""
import itertools
import math

import numpy

import piquasso as pq
from piquasso.fermionic import _utils as futils
from piquasso.fermionic.fock import simulation_steps as fsteps
from piquasso.fermionic.fock import state as fstate_mod
from piquasso.fermionic.fock.state import PureFockState as FPure
from piquasso.fermionic.gaussian import simulation_steps as gsteps
from piquasso.fermionic.gaussian import state as gstate_mod
from piquasso.fermionic.gaussian.state import GaussianState as FGauss
from piquasso.fermionic.instructions import IsingXX, ControlledPhase
from piquasso._simulators.connectors import connections as conns
from piquasso._simulators.connectors.numpy_ import connections as np_conns

from .. import xa, core
from . import common as cm
from . import C07


def ftable(d):
    return [tuple(int(x) for x in r) for r in futils.get_fock_space_basis(d, d + 1)]


def occ_set(v):
    return [i for i, x in enumerate(v) if x]


def minor(env, M, rows, cols):
    if not rows:
        return 1
    sub = numpy.asarray(M, dtype=object)[numpy.ix_(rows, cols)] if env.mode == "sym" else numpy.asarray(M)[numpy.ix_(rows, cols)]
    return xa.det(sub) if env.mode == "sym" else numpy.linalg.det(sub)


def h_representation(env, d, n, which):
    """n-particle block of the fermionic Fock representation of a GENERIC d x d matrix equals the
    matrix of n x n minors (Slater determinants) in the real basis order."""
    M = env.cplx_mat("u", d)
    conn = cm.connector(env)
    cutoff = n + 1
    if which == "numpy":
        fn = np_conns.calculate_interferometer_on_fermionic_fock_space.py_func
        env.functions.append(core.fn_ref(np_conns.calculate_interferometer_on_fermionic_fock_space))
        with cm.patched_np(env, fn):
            reps = fn(M, cutoff)
    else:
        env.functions.append(core.fn_ref(conns.calculate_interferometer_on_fermionic_fock_space))
        reps = conns.calculate_interferometer_on_fermionic_fock_space(conn, M, cutoff)
    sec = [v for v in ftable(d) if sum(v) == n]
    rep = reps[n]
    for r, out in enumerate(sec):
        for c, inp in enumerate(sec):
            env.equal("rep[%s,%s]==minor" % (out, inp), rep[r, c], minor(env, M, occ_set(out), occ_set(inp)))


def h_apply(env, d, modes):
    """a generic k x k matrix applied on consecutive modes of a generic fermionic state vector equals
    the second quantisation of its embedding (minors of I (+) M): index lists and sign conventions."""
    modes = tuple(modes)
    k = len(modes)
    conn = cm.connector(env)
    cutoff = d + 1
    M = env.cplx_mat("g", k)
    b = ftable(d)
    psi = env.cplx_vec("a", len(b))
    fn = np_conns.calculate_interferometer_on_fermionic_fock_space.py_func
    env.functions += [core.fn_ref(np_conns.calculate_interferometer_on_fermionic_fock_space), core.fn_ref(conns.apply_fermionic_passive_linear_to_state_vector),
                      core.fn_ref(conns._nb_calculate_index_list_for_appling_interferometer)]
    with cm.patched_np(env, fn):
        reps = fn(M, cutoff)
    new = conns.apply_fermionic_passive_linear_to_state_vector(conn, reps, psi, modes, d, cutoff)
    E = cm.embed(env, M, modes, d)
    for o, out in enumerate(b):
        tot = 0
        for i, inp in enumerate(b):
            if sum(inp) == sum(out):
                tot = tot + minor(env, E, occ_set(out), occ_set(inp)) * psi[i]
        env.equal("amp%s" % (out,), new[o], tot)


def _make(env, gate):
    if gate == "IsingXX":
        phi = env.param("phi")
        return IsingXX(phi=phi), fsteps.ising_XX, gsteps.ising_XX
    if gate == "Squeezing2":
        r, phi = env.param("r", denom=2), env.param("phi")
        return pq.Squeezing2(r=r, phi=phi), fsteps.squeezing2, gsteps.squeezing2
    inst, _ = C07.make_gate(env, gate)
    return inst, fsteps.passive_linear, gsteps.passive_linear_gate


def _fock_state(env, d, conn, cfg, psi):
    st = FPure(d=d, connector=conn, config=cfg)
    st._state_vector = psi
    return st


def h_cross(env, gate, d, modes):
    """Fock-space simulator vs Gaussian simulator: for ANY state vector psi, the covariance matrix of
    gate|psi> (Fock) equals the Gaussian update of the covariance matrix of |psi>; the norm is
    preserved; parity sectors do not mix."""
    modes = tuple(modes)
    conn = cm.connector(env)
    cfg = cm.config(env, cutoff=d + 1, validate=False)
    b = ftable(d)
    psi = env.cplx_vec("a", len(b))
    inst, fstep, gstep = _make(env, gate)
    inst = inst.on_modes(*modes)
    env.functions += [core.fn_ref(fstep), core.fn_ref(gstep), core.fn_ref(FPure.covariance_matrix), core.fn_ref(FGauss.covariance_matrix),
                      core.fn_ref(gsteps._do_apply_gaussian_hamiltonian)]
    with cm.patched_np(env, fsteps, gsteps, fstate_mod, gstate_mod, np_conns.calculate_interferometer_on_fermionic_fock_space.py_func):
        f0 = _fock_state(env, d, conn, cfg, psi.copy())
        cov0 = f0.covariance_matrix
        f1 = fstep(_fock_state(env, d, conn, cfg, psi.copy()), inst, None)[0].state
        new = f1._state_vector
        cov1 = f1.covariance_matrix
        g = FGauss(d=d, connector=conn, config=cfg)
        g.covariance_matrix = cov0
        g1 = gstep(g, inst, None)[0].state
        covg = g1.covariance_matrix
    env.equal("covariance (Gaussian update == Fock evolution)", covg, cov1)
    env.equal("covariance skew-symmetric", cov1, -cov1.T)
    n0 = sum(abs(x) ** 2 for x in psi) if env.mode == "num" else sum((xa.SC.lift(x).abs2() for x in psi), xa.SC(xa.ZERO))
    n1 = sum(abs(x) ** 2 for x in new) if env.mode == "num" else sum((xa.SC.lift(x).abs2() for x in new), xa.SC(xa.ZERO))
    env.equal("probabilities still sum to the squared norm", n1, n0)
    passive = gate not in ("IsingXX", "Squeezing2")
    for n in range(d + 1):
        idx = [i for i, v in enumerate(b) if sum(v) == n]
        if passive:
            a0 = sum(abs(psi[i]) ** 2 for i in idx) if env.mode == "num" else sum((xa.SC.lift(psi[i]).abs2() for i in idx), xa.SC(xa.ZERO))
            a1 = sum(abs(new[i]) ** 2 for i in idx) if env.mode == "num" else sum((xa.SC.lift(new[i]).abs2() for i in idx), xa.SC(xa.ZERO))
            env.equal("particle number %d weight conserved" % n, a1, a0)
    for par in (0, 1):
        idx = [i for i, v in enumerate(b) if sum(v) % 2 == par]
        a0 = sum(abs(psi[i]) ** 2 for i in idx) if env.mode == "num" else sum((xa.SC.lift(psi[i]).abs2() for i in idx), xa.SC(xa.ZERO))
        a1 = sum(abs(new[i]) ** 2 for i in idx) if env.mode == "num" else sum((xa.SC.lift(new[i]).abs2() for i in idx), xa.SC(xa.ZERO))
        env.equal("parity %d weight conserved" % par, a1, a0)


HARNESSES = {"representation": h_representation, "apply": h_apply, "cross": h_cross}


def instances(tier):
    out = []
    for d, n in [(2, 2), (3, 2), (3, 3)] if tier == "quick" else [(2, 2), (3, 2), (3, 3), (4, 2), (4, 3)]:
        for which in ("numpy", "generic"):
            out.append(("representation", {"d": d, "n": n, "which": which}))
    for d, modes in [(2, (0, 1)), (3, (0, 1)), (3, (1, 2)), (3, (1,)), (3, (2,))] + ([(4, (1, 2)), (4, (2, 3)), (4, (0,))] if tier == "thorough" else []):
        out.append(("apply", {"d": d, "modes": list(modes)}))
    cross = [("Beamsplitter", 2, (0, 1)), ("Phaseshifter", 2, (1,)), ("Squeezing2", 2, (0, 1)), ("IsingXX", 2, (0, 1)), ("Beamsplitter", 3, (1, 2)), ("Squeezing2", 3, (1, 2))]
    if tier == "thorough":
        cross += [("IsingXX", 3, (0, 1)), ("IsingXX", 3, (1, 2)), ("Squeezing2", 3, (0, 1)), ("MachZehnder", 2, (0, 1)), ("Phaseshifter", 3, (0,))]
    for g, d, m in cross:
        out.append(("cross", {"gate": g, "d": d, "modes": list(m)}))
    return out


EXPLANATION = (
    "Bounded symbolic verification of the fermionic simulators. (1) The Laplace-expansion representation of a passive gate (numba kernel source and the "
    "connector-generic version) on a GENERIC complex matrix equals the matrix of minors, entry by entry. (2) Applying a generic matrix on consecutive modes of a "
    "generic state vector equals the second quantisation of the embedded matrix (fixes index lists and sign conventions). (3) Cross-simulator: for ANY state "
    "vector psi and symbolic gate parameters, the Majorana covariance matrix of gate|psi> computed by the Fock simulator equals the Gaussian simulator's update "
    "of the covariance matrix of |psi> (passive gates, two-mode squeezing, Ising-XX; the matrix exponential through a closed form whose premise M^2=-w^2 I is an "
    "obligation); the total weight, the weight of each parity sector and - for passive gates - of each particle-number sector is conserved. Occupations are 0/1 by "
    "construction of the basis (checked in C06)."
)


def run(rep, tier, seed, opts):
    inst = instances(tier)
    if opts.get("only"):
        inst = [i for i in inst if opts["only"] in i[0] or opts["only"] in str(i[1])]
    rep.bounds = {"representation (d, n)": "up to (3,3) quick / (4,3) thorough", "apply": "d<=3 (4)", "cross": "d=2 (3), generic state vector, symbolic angles",
                  "outside": "GaussianHamiltonian with a generic quadratic Hamiltonian (expm of a generic antisymmetric matrix), detection probabilities through the Pfaffian/overlap formula, ControlledPhase "
                             "(Fock only), non-consecutive modes (rejected by the simulator), d>4"}
    o = {"timeout_s": 90 if tier == "quick" else 400, "instance_timeout_s": 900 if tier == "quick" else 3000, "seed": seed, "validation_points": 1}
    for r in core.run_instances(__name__, inst, o, jobs=opts.get("jobs")):
        rep.add_instance_result(__name__, r)
    return rep.finish(level="other", explanation=EXPLANATION)
