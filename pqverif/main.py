import os
import sys
import argparse
import importlib


def main():
    ap = argparse.ArgumentParser(prog="check")
    ap.add_argument("prop")
    ap.add_argument("--tier", default=os.environ.get("VERIF_TIER", "quick"), choices=["quick", "thorough"])
    ap.add_argument("--replay")
    ap.add_argument("--only", default=None, help="substring filter on harness names")
    ap.add_argument("--jobs", type=int, default=None)
    ap.add_argument("--seed", type=int, default=int(os.environ.get("VERIF_SEED", "0") or 0))
    a = ap.parse_args()
    from . import core
    if a.replay:
        sys.exit(core.replay_file(a.replay))
    mod = importlib.import_module("pqverif.props.%s" % a.prop)
    rep = core.Report(a.prop, a.tier, a.seed)
    try:
        code = mod.run(rep, a.tier, a.seed, {"only": a.only, "jobs": a.jobs})
    except Exception as e:
        import traceback
        traceback.print_exc()
        print("HARNESS-ERROR %s: %r" % (a.prop, e))
        sys.exit(core.EXIT_HARNESS)
    sys.exit(code)


if __name__ == "__main__":
    main()
