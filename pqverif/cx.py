"""E-CX: symbolic execution of the C++ kernels from clang's own AST.

`clang++-14 -Xclang -ast-dump=json` is run on /repo's current src/*.cpp on every run; the *instantiated* function bodies
(templates resolved, implicit conversions explicit, every expression typed) are interpreted statement by statement on
 - Python ints / si.SI (z3 Int + width obligations) for the integer types, with C++ semantics applied from the AST's types
   (signed overflow, narrowing casts, truncating division, out-of-bounds subscripts and reads of uninitialised `new[]`
   storage are recorded as undefined-behaviour events),
 - xa.SC (z3 Real complex scalars) / Python complex for std::complex<T> and T,
so that the value a kernel returns is a polynomial in the symbolic matrix entries which z3 compares with the definition.
Branches on symbolic integers (the value std::thread::hardware_concurrency() returns) go through Env.decide, i.e. the
solver enumerates the feasible classes.  Containers of src/matrix.hpp (Matrix / Vector handles sharing a buffer),
std::vector, std::complex, ldexp, uninitialized_copy_n and printf are native models (listed as stubs); destructors and
deallocation are not modelled.  A compiled twin of the same source (UBSan driver, hardware_concurrency injectable) is the
`num` mode used for replay and for validating this interpreter."""
import json
import os
import subprocess
import tempfile
import hashlib

import z3

from . import xa, si

CLANG = os.environ.get("PQVERIF_CLANGXX", "clang++-14")


class CxxThrow(Exception):
    pass


class _Break(Exception):
    pass


class _Continue(Exception):
    pass


class _Return(Exception):
    def __init__(self, v):
        self.v = v


class Uninit:
    def __repr__(self):
        return "<uninitialised>"


UNINIT = Uninit()


class Ref:
    __slots__ = ("c", "k", "it")

    def __init__(self, c, k, it=None):
        self.c, self.k, self.it = c, k, it

    def get(self):
        v = self.c[self.k]
        if v is UNINIT:
            if self.it is not None:
                self.it.ub("read of uninitialised storage")
            return 0
        return v

    def set(self, v):
        self.c[self.k] = v


class Ptr:
    __slots__ = ("buf", "off")

    def __init__(self, buf, off=0):
        self.buf, self.off = buf, off


class Obj:
    def __init__(self, cls):
        self.cls = cls
        self.f = {}


class AbsVal:
    """std::abs(x) of a symbolic real: only ever compared, so comparisons are decided on squares"""
    __slots__ = ("x",)

    def __init__(self, x):
        self.x = x

    def sq(self):
        return self.x * self.x


class Mat:
    """src/matrix.hpp Matrix<T> / Vector<T>: a handle (rows, cols, stride, data pointer); copies share the buffer"""
    def __init__(self, rows, cols, data, is_vec=False):
        self.f = {"rows": rows, "cols": cols, "stride": cols, "data": data, "length": cols if is_vec else rows * cols}
        self.is_vec = is_vec

    def clone_handle(self):
        m = Mat(0, 0, None, self.is_vec)
        m.f = dict(self.f)
        return m


INT_TYPES = {
    "int": (32, True), "unsigned int": (32, False), "long": (64, True), "unsigned long": (64, False), "long long": (64, True),
    "unsigned long long": (64, False), "char": (8, True), "signed char": (8, True), "unsigned char": (8, False), "short": (16, True),
    "unsigned short": (16, False), "bool": (1, False),
    "int64_t": (64, True), "size_t": (64, False), "std::size_t": (64, False), "uint64_t": (64, False), "int32_t": (32, True),
}


def _tname(node):
    t = node.get("type", {})
    q = t.get("desugaredQualType") or t.get("qualType") or ""
    return q.replace("const ", "").replace(" &", "").replace("&", "").strip()


def int_type(node):
    return INT_TYPES.get(_tname(node))


def load_ast(src, filt, include_dirs):
    cmd = [CLANG, "-std=c++17", "-fsyntax-only", "-Xclang", "-ast-dump=json", "-Xclang", "-ast-dump-filter=" + filt] + ["-I" + d for d in include_dirs] + [src]
    p = subprocess.run(cmd, capture_output=True, text=True)
    if p.returncode != 0:
        raise xa.HarnessError("clang failed on %s: %s" % (src, p.stderr[-400:]))
    s, i, out, dec = p.stdout, 0, [], json.JSONDecoder()
    while True:
        while i < len(s) and s[i].isspace():
            i += 1
        if i >= len(s):
            break
        o, i = dec.raw_decode(s, i)
        out.append(o)
    return out


class Program:
    """function / method bodies of one translation unit, looked up by (name, number of parameters[, type])"""

    def __init__(self, repo):
        self.repo = repo
        self.funcs = {}
        self.classes = {}
        self.sources = set()

    def add(self, relsrc, filt):
        src = os.path.join(self.repo, relsrc)
        self.sources.add(relsrc)
        for top in load_ast(src, filt, [os.path.join(self.repo, "src")]):
            self._index(top, None)

    def _index(self, n, cls):
        k = n.get("kind")
        if k in ("FunctionDecl", "CXXMethodDecl", "CXXConstructorDecl") and any(c.get("kind") == "CompoundStmt" for c in n.get("inner", [])):
            params = [c for c in n["inner"] if c.get("kind") == "ParmVarDecl"]
            key = (cls, n["name"], len(params))
            self.funcs.setdefault(key, []).append(n)
            self.funcs.setdefault((cls, n["name"], len(params), n["type"]["qualType"]), []).append(n)
            f = n.get("loc", {}).get("file") or n.get("range", {}).get("begin", {}).get("file")
        if k == "CXXRecordDecl" and n.get("name") and n.get("completeDefinition"):
            self.classes[n["name"]] = n
            for c in n.get("inner", []):
                self._index(c, n["name"])
            return
        if k in ("FunctionTemplateDecl", "ClassTemplateDecl", "NamespaceDecl", "LinkageSpecDecl", "ClassTemplateSpecializationDecl"):
            for c in n.get("inner", []):
                self._index(c, cls)

    def find(self, cls, name, nargs, typ=None, pick=None):
        if typ is not None and (cls, name, nargs, typ) in self.funcs:
            return self.funcs[(cls, name, nargs, typ)][-1]
        c = self.funcs.get((cls, name, nargs))
        if not c:
            return None
        if pick is not None:
            for f in c:
                if pick in f["type"]["qualType"]:
                    return f
        return c[-1]


class Interp:
    def __init__(self, prog, env, hardware_concurrency=None, max_steps=2_000_000):
        self.p = prog
        self.env = env
        self.hc = hardware_concurrency
        self.ub_events = []          # (description, z3 condition or True) - undefined-behaviour events seen on this path
        self.steps = 0
        self.max_steps = max_steps
        self.frames = []
        self.this = []
        self.line = 0
        self.known = []              # (z3 term, value) pairs established by conc() on this path

    def _sub(self, v):
        if isinstance(v, si.SI) and self.known and not z3.is_int_value(v.e):
            e = z3.simplify(z3.substitute(v.e, *[(t, z3.IntVal(c)) for t, c in self.known]))
            if z3.is_int_value(e):
                return e.as_long()
            return si.SI(e, v.bits)
        return v

    # ------------------------------------------------------------------ helpers
    def ub(self, what, cond=True):
        self.ub_events.append(("%s (line %s)" % (what, self.line), cond))

    def truth(self, v):
        if isinstance(v, Ref):
            v = v.get()
        if isinstance(v, xa.SymBool):
            e = z3.simplify(v.e)
            if z3.is_true(e):
                return True
            if z3.is_false(e):
                return False
            return self.env.decide(e)
        if isinstance(v, si.SI):
            return self.truth(v != 0)
        if isinstance(v, (Ptr, Obj, Mat)):
            return True
        if v is None:
            return False
        return bool(v)

    def conc(self, v, what="size"):
        """make a symbolic integer concrete on this path (the explorer forks per feasible value)"""
        if isinstance(v, Ref):
            v = v.get()
        if isinstance(v, si.SI):
            e = z3.simplify(v.e)
            if z3.is_int_value(e):
                return e.as_long()
            for c in range(0, 4096):
                if self.env.decide(e == c):
                    self.known.append((e, c))
                    return c
            raise xa.PathAbort("no concrete value for %s" % what)
        return int(v)

    def fit(self, v, ty, what):
        """apply the C++ integer type ty = (bits, signed) to a mathematically computed value"""
        if ty is None:
            return v
        bits, signed = ty
        v = self._sub(v)
        if isinstance(v, bool):
            v = int(v)
        if isinstance(v, xa.SymBool):
            if bits == 1:
                return v
            v = si.SI(z3.If(v.e, 1, 0), bits)
        if bits == 1:
            if isinstance(v, si.SI):
                return v != 0
            return bool(v)
        if isinstance(v, si.SI):
            e = z3.simplify(v.e)
            if z3.is_int_value(e):
                v = e.as_long()
            else:
                lo, hi = (-(2 ** (bits - 1)), 2 ** (bits - 1) - 1) if signed else (0, 2 ** bits - 1)
                self.env.records.append(("%s stays in %s%d #%d: %s (line %s)" % ("value", "int" if signed else "uint", bits, len(self.env.records), what, self.line),
                                         "holds", xa.SymBool(z3.And(e >= lo, e <= hi)), None, list(self.env.pc)))
                return si.SI(e, bits)
        if isinstance(v, int):
            if signed:
                if not -(2 ** (bits - 1)) <= v <= 2 ** (bits - 1) - 1:
                    if what.startswith("cast"):
                        v = (v + 2 ** (bits - 1)) % 2 ** bits - 2 ** (bits - 1)   # implementation-defined (modular) narrowing
                    else:
                        self.ub("signed integer overflow in %s: %d does not fit int%d" % (what, v, bits))
                        v = (v + 2 ** (bits - 1)) % 2 ** bits - 2 ** (bits - 1)
            else:
                v %= 2 ** bits
        return v

    # ------------------------------------------------------------------ calls
    def call(self, fn, args, this=None):
        params = [c for c in fn["inner"] if c.get("kind") == "ParmVarDecl"]
        frame = {}
        for prm, a in zip(params, args):
            q = prm["type"]["qualType"]
            if q.rstrip().endswith("&"):
                frame[prm["id"]] = a if isinstance(a, Ref) else Ref([a], 0)
                frame[("ref", prm["id"])] = True
            else:
                if isinstance(a, Ref):
                    a = a.get()
                if isinstance(a, Mat):
                    a = a.clone_handle()
                frame[prm["id"]] = a
        self.frames.append(frame)
        self.this.append(this)
        try:
            if fn["kind"] == "CXXConstructorDecl":
                for c in fn["inner"]:
                    if c.get("kind") == "CXXCtorInitializer":
                        this.f[c["anyInit"]["name"]] = self.rv(c["inner"][0])
            body = [c for c in fn["inner"] if c.get("kind") == "CompoundStmt"][0]
            self.stmt(body)
            return None
        except _Return as r:
            return r.v
        finally:
            self.frames.pop()
            self.this.pop()

    # ------------------------------------------------------------------ statements
    def stmt(self, n):
        self.steps += 1
        if self.steps > self.max_steps:
            raise xa.HarnessError("C++ interpreter step budget exceeded")
        k = n.get("kind")
        ln = n.get("range", {}).get("begin", {}).get("line") or n.get("loc", {}).get("line")
        if ln:
            self.line = ln
        if k == "CompoundStmt":
            for c in n.get("inner", []):
                self.stmt(c)
        elif k == "DeclStmt":
            for c in n.get("inner", []):
                if c.get("kind") == "VarDecl":
                    self.vardecl(c)
        elif k == "IfStmt":
            inner = n["inner"]
            if self.truth(self.ev(inner[0])):
                self.stmt(inner[1])
            elif len(inner) > 2:
                self.stmt(inner[2])
        elif k == "ForStmt":
            init, _cv, cond, inc, body = n["inner"]
            if init:
                self.stmt(init)
            while True:
                if cond and not self.truth(self.ev(cond)):
                    break
                try:
                    self.stmt(body)
                except _Break:
                    break
                except _Continue:
                    pass
                if inc:
                    self.ev(inc)
        elif k == "WhileStmt":
            cond, body = n["inner"][-2], n["inner"][-1]
            while self.truth(self.ev(cond)):
                try:
                    self.stmt(body)
                except _Break:
                    break
                except _Continue:
                    pass
        elif k == "CXXForRangeStmt":
            inner = n["inner"]
            rng = self.rv(inner[1]["inner"][0]["inner"][0]) if inner[1] else None
            if isinstance(rng, Ref):
                rng = rng.get()
            var = inner[6]["inner"][0]
            body = inner[7]
            for i in range(len(rng)):
                self.frames[-1][var["id"]] = Ref(rng, i, self)
                self.frames[-1][("ref", var["id"])] = True
                try:
                    self.stmt(body)
                except _Break:
                    break
                except _Continue:
                    pass
        elif k == "ReturnStmt":
            v = self.ev(n["inner"][0]) if n.get("inner") else None
            if isinstance(v, Ref):
                v = v.get()
            raise _Return(v)
        elif k == "BreakStmt":
            raise _Break()
        elif k == "ContinueStmt":
            raise _Continue()
        elif k == "NullStmt":
            pass
        elif k in ("OMPParallelForDirective",):
            self.stmt(n["inner"][-1])
        else:
            self.ev(n)

    def vardecl(self, c):
        q = c["type"]["qualType"]
        init = [x for x in c.get("inner", []) if "Comment" not in x.get("kind", "")]
        fr = self.frames[-1]
        if q.rstrip().endswith("&"):
            r = self.ev(init[0])
            fr[c["id"]] = r if isinstance(r, Ref) else Ref([r], 0)
            fr[("ref", c["id"])] = True
            return
        if not init:
            fr[c["id"]] = UNINIT if INT_TYPES.get(_tname(c)) else self.default_value(q)
            return
        v = self.rv(init[0])
        if isinstance(v, Mat) and init[0].get("kind") != "CXXConstructExpr":
            v = v.clone_handle()
        ty = INT_TYPES.get(_tname(c))
        fr[c["id"]] = self.fit(v, ty, "initialisation of %s" % c.get("name")) if ty else v

    def default_value(self, q):
        if "complex" in q:
            return 0
        return UNINIT

    # ------------------------------------------------------------------ expressions
    def rv(self, n):
        v = self.ev(n)
        v = v.get() if isinstance(v, Ref) else v
        return self._sub(v) if self.known else v

    def lookup(self, did, name):
        for fr in (self.frames[-1],):
            if did in fr:
                return fr, did
        raise xa.HarnessError("unbound C++ variable %s" % name)

    def ev(self, n):
        k = n["kind"]
        m = getattr(self, "e_" + k, None)
        if m is None:
            raise xa.HarnessError("C++ AST node %s is not supported by the interpreter (line %s)" % (k, self.line))
        return m(n)

    def e_IntegerLiteral(self, n):
        return int(n["value"])

    def e_FloatingLiteral(self, n):
        return float(n["value"])

    def e_CXXBoolLiteralExpr(self, n):
        return bool(n["value"])

    def e_CXXNullPtrLiteralExpr(self, n):
        return None

    def e_StringLiteral(self, n):
        return n.get("value", "")

    def e_ParenExpr(self, n):
        return self.ev(n["inner"][0])

    e_ExprWithCleanups = e_ParenExpr
    e_MaterializeTemporaryExpr = e_ParenExpr
    e_CXXBindTemporaryExpr = e_ParenExpr
    e_ConstantExpr = e_ParenExpr
    e_CXXDefaultArgExpr = lambda self, n: None

    def e_CXXThisExpr(self, n):
        return self.this[-1]

    def e_DeclRefExpr(self, n):
        rd = n["referencedDecl"]
        if rd["kind"] in ("FunctionDecl", "CXXMethodDecl"):
            return ("fn", rd)
        fr = self.frames[-1]
        if rd["id"] not in fr:
            raise xa.HarnessError("unbound C++ variable %s (line %s)" % (rd.get("name"), self.line))
        if fr.get(("ref", rd["id"])):
            return fr[rd["id"]]
        return Ref(fr, rd["id"], self)

    def e_MemberExpr(self, n):
        base = self.ev(n["inner"][0])
        if isinstance(base, Ref):
            base = base.get()
        name = n["name"]
        if isinstance(base, (Obj, Mat)):
            if name in base.f or n.get("type", {}).get("qualType") != "<bound member function type>":
                return Ref(base.f, name, self)
        return ("method", base, name)

    def e_ArraySubscriptExpr(self, n):
        p = self.rv(n["inner"][0])
        i = self.conc(self.rv(n["inner"][1]), "subscript")
        return self.index(p, i)

    def index(self, p, i):
        if isinstance(p, Ptr):
            j = p.off + i
            if not 0 <= j < len(p.buf):
                self.ub("out-of-bounds subscript %d of a buffer of %d elements" % (j, len(p.buf)))
                return Ref([0], 0)
            return Ref(p.buf, j, self)
        if isinstance(p, list):
            if not 0 <= i < len(p):
                self.ub("out-of-bounds subscript %d of a std::vector of %d elements" % (i, len(p)))
                return Ref([0], 0)
            return Ref(p, i, self)
        if p is None:
            self.ub("null pointer subscript")
            return Ref([0], 0)
        raise xa.HarnessError("subscript of %r" % (p,))

    def e_ImplicitCastExpr(self, n):
        ck = n.get("castKind")
        sub = n["inner"][0]
        if ck == "LValueToRValue":
            return self.rv(sub)
        if ck in ("NoOp", "FunctionToPointerDecay", "ArrayToPointerDecay", "ConstructorConversion", "UserDefinedConversion", "DerivedToBase",
                  "UncheckedDerivedToBase", "NullToPointer", "BuiltinFnToFnPtr"):
            return self.ev(sub)
        v = self.rv(sub)
        if ck == "IntegralCast":
            return self.fit(v, int_type(n), "cast to %s" % _tname(n))
        if ck in ("IntegralToFloating", "FloatingCast"):
            if isinstance(v, si.SI):
                raise xa.HarnessError("symbolic integer converted to floating point")
            if isinstance(v, bool):
                return int(v)
            return v
        if ck in ("IntegralToBoolean", "PointerToBoolean"):
            if isinstance(v, si.SI):
                return v != 0
            if isinstance(v, xa.SymBool):
                return v
            return self.truth(v)
        if ck == "FloatingToIntegral":
            return self.fit(int(v), int_type(n), "cast to %s" % _tname(n))
        if ck in ("FloatingRealToComplex", "FloatingComplexCast"):
            return v
        raise xa.HarnessError("cast kind %s not supported (line %s)" % (ck, self.line))

    e_CXXStaticCastExpr = e_ImplicitCastExpr
    e_CStyleCastExpr = e_ImplicitCastExpr

    def e_CXXFunctionalCastExpr(self, n):
        ck = n.get("castKind")
        if ck in ("NoOp", "ConstructorConversion"):
            return self.ev(n["inner"][0])
        return self.e_ImplicitCastExpr(n)

    def e_InitListExpr(self, n):
        inner = n.get("inner", [])
        if not inner:
            return 0
        return self.rv(inner[0])

    def e_CXXScalarValueInitExpr(self, n):
        return 0

    def e_ConditionalOperator(self, n):
        c, a, b = n["inner"]
        return self.ev(a) if self.truth(self.ev(c)) else self.ev(b)

    def e_UnaryOperator(self, n):
        op = n["opcode"]
        sub = n["inner"][0]
        if op in ("++", "--"):
            r = self.ev(sub)
            old = r.get()
            new = self.fit(old + (1 if op == "++" else -1), int_type(n) or int_type(sub), "%s" % op) if not isinstance(old, Ptr) else Ptr(old.buf, old.off + (1 if op == "++" else -1))
            r.set(new)
            return old if n.get("isPostfix") else r
        if op == "*":
            p = self.rv(sub)
            return self.index(p, 0)
        if op == "&":
            r = self.ev(sub)
            if isinstance(r, Ref) and isinstance(r.c, list):
                return Ptr(r.c, r.k)
            return r
        v = self.rv(sub)
        if op == "-":
            return self.fit(-v, int_type(n), "negation")
        if op == "+":
            return v
        if op == "!":
            if isinstance(v, xa.SymBool):
                return xa.SymBool(z3.Not(v.e))
            if isinstance(v, si.SI):
                return v == 0
            return not self.truth(v)
        if op == "~":
            return self.fit(~v, int_type(n), "~")
        raise xa.HarnessError("unary operator %s" % op)

    def arith(self, op, a, b, n):
        ty = int_type(n)
        if op in ("+", "-", "*"):
            if isinstance(a, Ptr):
                return Ptr(a.buf, a.off + (self.conc(b) if op == "+" else -self.conc(b)))
            r = a + b if op == "+" else a - b if op == "-" else a * b
            if ty and isinstance(r, si.SI):
                r.bits = ty[0]
                return r if ty[1] else self.fit(r, ty, op)
            return self.fit(r, ty, op) if ty else r
        if op in ("/", "%"):
            if ty:
                if isinstance(a, si.SI) or isinstance(b, si.SI):
                    a, b = si.SI.lift(a, ty[0]), si.SI.lift(b, ty[0])
                    self.env.records.append(("integer %s with dividend >= 0 and divisor > 0 #%d (line %s)" % (op, len(self.env.records), self.line), "holds",
                                             xa.SymBool(z3.And(a.e >= 0, b.e > 0)), None, list(self.env.pc)))
                    return si.SI(z3.simplify(a.e / b.e if op == "/" else a.e % b.e), ty[0])
                if b == 0:
                    self.ub("integer division by zero")
                    return 0
                q = abs(a) // abs(b) * (1 if (a >= 0) == (b >= 0) else -1)
                return self.fit(q if op == "/" else a - q * b, ty, op)
            return a / b
        if op in ("<", ">", "<=", ">=", "==", "!="):
            if isinstance(a, AbsVal) or isinstance(b, AbsVal):
                a = a.sq() if isinstance(a, AbsVal) else a * a
                b = b.sq() if isinstance(b, AbsVal) else b * b
            if isinstance(a, Ptr) or isinstance(b, Ptr) or a is None or b is None:
                same = (a is b) or (isinstance(a, Ptr) and isinstance(b, Ptr) and a.buf is b.buf and a.off == b.off)
                return same if op == "==" else not same
            return {"<": lambda: a < b, ">": lambda: a > b, "<=": lambda: a <= b, ">=": lambda: a >= b, "==": lambda: a == b, "!=": lambda: a != b}[op]()
        if op in ("&", "|", "^", "<<", ">>"):
            if isinstance(a, si.SI) or isinstance(b, si.SI):
                raise xa.HarnessError("bit operation on a symbolic integer")
            r = {"&": a & b, "|": a | b, "^": a ^ b, "<<": a << b, ">>": a >> b}[op]
            return self.fit(r, ty, op)
        raise xa.HarnessError("binary operator %s" % op)

    def e_BinaryOperator(self, n):
        op = n["opcode"]
        l, r = n["inner"]
        if op == "=":
            ref = self.ev(l)
            v = self.rv(r)
            ref.set(v)
            return ref
        if op == "&&":
            a = self.ev(l)
            if not self.truth(a):
                return False
            return self.truth(self.ev(r))
        if op == "||":
            a = self.ev(l)
            if self.truth(a):
                return True
            return self.truth(self.ev(r))
        if op == ",":
            self.ev(l)
            return self.ev(r)
        return self.arith(op, self.rv(l), self.rv(r), n)

    def e_CompoundAssignOperator(self, n):
        op = n["opcode"][:-1]
        l, r = n["inner"]
        ref = self.ev(l)
        b = self.rv(r)
        a = ref.get()
        comp = n.get("computeResultType", {}).get("qualType")
        cty = INT_TYPES.get(comp) if comp else int_type(n)
        fake = {"type": {"qualType": comp or _tname(n)}}
        v = self.arith(op, self.fit(a, cty, "cast") if cty else a, b, fake)
        v = self.fit(v, int_type(n), "compound %s=" % op) if int_type(n) else v
        ref.set(v)
        return ref

    # ---- object construction
    def e_CXXConstructExpr(self, n):
        q = n["type"]["qualType"]
        args = n.get("inner", [])
        if q.startswith("Matrix<") or q.startswith("Vector<"):
            is_vec = q.startswith("Vector<")
            elem_int = "int" in q.split("<", 1)[1] and "complex" not in q
            if len(args) == 1 and _tname(args[0]).startswith(("Matrix<", "Vector<")):
                return self.rv(args[0]).clone_handle()
            vals = [self.conc(self.rv(a)) for a in args if a.get("kind") != "CXXDefaultArgExpr"]
            if is_vec:
                ln = vals[0] if vals else 0
                return Mat(1, ln, Ptr([UNINIT if elem_int else 0] * ln), True)
            if len(vals) == 2:
                return Mat(vals[0], vals[1], Ptr([UNINIT if elem_int else 0] * (vals[0] * vals[1])))
            return Mat(0, 0, None)
        if "complex<" in q or q in ("TComplex",):
            vals = [self.rv(a) for a in args]
            if len(vals) == 1:
                return vals[0]
            if not vals:
                return 0
            re, im = vals[0], vals[1]
            if isinstance(im, (int, float)) and im == 0:
                return re
            return re + 1j * im
        if "vector<" in q:
            vals = [self.rv(a) for a in args if a.get("kind") != "CXXDefaultArgExpr"]
            if not vals:
                return []
            if isinstance(vals[0], list):
                return list(vals[0])
            cnt = self.conc(vals[0], "std::vector size")
            return [vals[1] if len(vals) > 1 else 0] * cnt
        if "basic_string" in q or q == "std::string":
            return self.rv(args[0]) if args else ""
        cls = q.replace("class ", "").strip()
        if cls in self.p.classes:
            o = Obj(cls)
            ctor = self.p.find(cls, cls, len(args))
            if ctor is None:
                raise xa.HarnessError("no constructor %s/%d" % (cls, len(args)))
            self.call(ctor, [self.ev(a) for a in args], this=o)
            return o
        raise xa.HarnessError("construction of %s is not modelled (line %s)" % (q, self.line))

    e_CXXTemporaryObjectExpr = e_CXXConstructExpr

    def e_CXXNewExpr(self, n):
        q = n["type"]["qualType"]
        if n.get("isArray"):
            cnt = self.conc(self.rv(n["inner"][0]), "new[] size")
            elem_int = INT_TYPES.get(q.replace("*", "").strip()) is not None
            return Ptr([UNINIT if elem_int else 0] * cnt)
        return Ptr([UNINIT])

    def e_CXXDeleteExpr(self, n):
        return None

    def e_CXXThrowExpr(self, n):
        v = self.rv(n["inner"][0]) if n.get("inner") else None
        raise CxxThrow(v)

    # ---- calls
    def e_CallExpr(self, n):
        callee = self.ev(n["inner"][0])
        argn = n["inner"][1:]
        if not (isinstance(callee, tuple) and callee[0] == "fn"):
            raise xa.HarnessError("indirect call (line %s)" % self.line)
        rd = callee[1]
        name = rd["name"]
        if name == "hardware_concurrency":
            if self.hc is None:
                raise xa.HarnessError("hardware_concurrency() reached without a stub value")
            return self.hc
        if name == "ldexp":
            x, e = self.rv(argn[0]), self.conc(self.rv(argn[1]))
            return x * (2.0 ** e)
        if name == "uninitialized_copy_n" or name == "copy_n":
            src, cnt, dst = self.rv(argn[0]), self.conc(self.rv(argn[1])), self.rv(argn[2])
            for i in range(cnt):
                self.index(dst, i).set(self.index(src, i).get())
            return None
        if name == "memcpy":
            raise xa.HarnessError("memcpy is not modelled")
        if name in ("printf", "puts"):
            return 0
        if name in ("abs", "fabs"):
            v = self.rv(argn[0])
            if isinstance(v, xa.SC):
                return AbsVal(v)
            if isinstance(v, si.SI):
                raise xa.HarnessError("abs of a symbolic integer")
            return abs(v)
        if name in ("min", "max"):
            a, b = self.rv(argn[0]), self.rv(argn[1])
            c = self.truth(b < a) if name == "min" else self.truth(a < b)
            return b if c else a
        fn = self.p.find(None, name, len(argn), rd.get("type", {}).get("qualType"))
        if fn is None:
            raise xa.HarnessError("call of %s/%d: no body available (line %s)" % (name, len(argn), self.line))
        return self.call(fn, [self.ev(a) for a in argn])

    def e_CXXMemberCallExpr(self, n):
        callee = self.ev(n["inner"][0])
        argn = n["inner"][1:]
        if not (isinstance(callee, tuple) and callee[0] == "method"):
            raise xa.HarnessError("member call on %r (line %s)" % (callee, self.line))
        _, base, name = callee
        if isinstance(base, Mat):
            if name == "size":
                return base.f["length"]
            if name == "sum":
                t = 0
                d = base.f["data"]
                for i in range(base.f["length"]):
                    t = self.fit(t + self.index(d, i).get(), (32, True), "Vector<int>::sum")
                return t
            if name == "copy":
                d = base.f["data"]
                m = base.clone_handle()
                m.f["data"] = Ptr([self.index(d, i).c[self.index(d, i).k] for i in range(base.f["length"])])
                return m
            raise xa.HarnessError("Matrix/Vector method %s is not modelled" % name)
        if isinstance(base, list):
            if name == "size":
                return len(base)
            if name == "reserve":
                return None
            if name == "push_back":
                v = self.rv(argn[0])
                base.append(v)
                return None
            raise xa.HarnessError("std::vector method %s is not modelled" % name)
        if isinstance(base, Obj):
            fn = self.p.find(base.cls, name, len(argn))
            if fn is None:
                raise xa.HarnessError("method %s::%s/%d has no body" % (base.cls, name, len(argn)))
            return self.call(fn, [self.ev(a) for a in argn], this=base)
        if name in ("real", "imag"):
            v = base
            if isinstance(v, xa.SC):
                return v.real if name == "real" else v.imag
            v = complex(v)
            return v.real if name == "real" else v.imag
        raise xa.HarnessError("member call %s on %r" % (name, type(base)))

    def e_CXXOperatorCallExpr(self, n):
        callee = self.ev(n["inner"][0])
        name = callee[1]["name"] if isinstance(callee, tuple) else ""
        argn = n["inner"][1:]
        a0 = self.ev(argn[0])
        base = a0.get() if isinstance(a0, Ref) else a0
        if name == "operator()" and isinstance(base, Mat):
            r, c = self.conc(self.rv(argn[1])), self.conc(self.rv(argn[2]))
            return self.index(base.f["data"], r * base.f["stride"] + c)
        if name == "operator[]":
            i = self.conc(self.rv(argn[1]))
            if isinstance(base, Mat):
                return self.index(base.f["data"], i)
            return self.index(base, i)
        if name == "operator=":
            v = self.rv(argn[1])
            if isinstance(base, Mat):
                base.f.update(v.f)
                return a0
            a0.set(v)
            return a0
        if name in ("operator+=", "operator-=", "operator*=", "operator/="):
            v = self.rv(argn[1])
            op = name[8]
            cur = a0.get()
            a0.set(cur + v if op == "+" else cur - v if op == "-" else cur * v if op == "*" else cur / v)
            return a0
        if name in ("operator+", "operator-", "operator*", "operator/"):
            op = name[8]
            if len(argn) == 1:
                return -base if op == "-" else base
            v = self.rv(argn[1])
            return base + v if op == "+" else base - v if op == "-" else base * v if op == "*" else base / v
        raise xa.HarnessError("operator call %s is not modelled (line %s)" % (name, self.line))


# ---------------------------------------------------------------------- compiled twin (num mode / replay)
_DRIVER_TMPL = r'''
#include <thread>
#include <cstdio>
#include <cstdlib>
#include <complex>
#include <string>
static unsigned int pqverif_hc = 1;
namespace std { struct pqverif_thread { static unsigned int hardware_concurrency() { return pqverif_hc; } }; }
#define thread pqverif_thread
%(includes)s
#undef thread
%(main)s
'''


class Native:
    """the same source compiled with clang++ -fsanitize=undefined into a driver; one subprocess call per evaluation"""

    def __init__(self, repo, includes, main_src, tag):
        self.dir = tempfile.mkdtemp(prefix="pqverif_cx_")
        src = os.path.join(self.dir, "driver.cpp")
        with open(src, "w") as f:
            f.write(_DRIVER_TMPL % {"includes": "\n".join('#include "%s"' % os.path.join(repo, i) for i in includes), "main": main_src})
        self.exe = os.path.join(self.dir, "driver_" + tag)
        cmd = [CLANG, "-std=c++17", "-O1", "-g", "-fsanitize=undefined,bounds", "-fno-sanitize-recover=undefined", "-D_GLIBCXX_ASSERTIONS", "-I" + os.path.join(repo, "src"), src, "-o", self.exe]
        p = subprocess.run(cmd, capture_output=True, text=True)
        if p.returncode != 0:
            raise xa.HarnessError("native twin does not compile: %s" % p.stderr[-600:])

    def run(self, stdin_text, timeout=60):
        p = subprocess.run([self.exe], input=stdin_text, capture_output=True, text=True, timeout=timeout)
        return p.returncode, p.stdout, p.stderr

    def close(self):
        import shutil
        shutil.rmtree(self.dir, ignore_errors=True)
