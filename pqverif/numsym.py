"""E-NS: symbolic integers / exact rationals / IEEE doubles for shot arithmetic.

The real functions are run from their own bytecode with the builtins `int`, `float`, `round` replaced in a copy
of their globals (`rebind`), so conversions of symbolic values stay symbolic:

 * SInt  - a non-negative machine-size integer: z3 BitVec(64) term, plus (when it is one) its monomial structure
           coef * prod(atoms) so that exact Fraction arithmetic cancels structurally;
 * SRat  - an exact rational num/den of SInts (what fractions.Fraction computes: exact, value-normalised);
 * SFloat- an IEEE-754 binary64 value (z3 FloatingPoint, round-nearest-even), produced by float(SRat|SInt),
           int(SFloat) truncates toward zero like Python.

Every conversion int(...) is logged so that a harness can state what it must equal."""
import types
from collections import Counter
from fractions import Fraction
from math import gcd

import z3

from .xa import HarnessError

BITS = 64
F64 = z3.Float64()
RNE = z3.RNE()


def bv(v):
    if isinstance(v, SInt):
        return v.bv
    return z3.BitVecVal(int(v), BITS)


class SInt:
    def __init__(self, e, mono=None):
        self.bv = e
        self.mono = mono          # (coef:int, Counter{atom name: power}) or None

    @staticmethod
    def atom(name):
        return SInt(z3.BitVec(name, BITS), (1, Counter({name: 1})))

    @staticmethod
    def lift(x):
        if isinstance(x, SInt):
            return x
        if isinstance(x, bool) or not isinstance(x, int):
            raise HarnessError("SInt.lift(%r)" % (x,))
        return SInt(z3.BitVecVal(x, BITS), (x, Counter()))

    def __mul__(self, o):
        if isinstance(o, (SRat, SFloat)):
            return o.__rmul__(self)
        if isinstance(o, Fraction):
            return SRat(self, SInt.lift(1)) * o
        if isinstance(o, float):
            return SFloat.of(self) * o
        if isinstance(o, list):
            return RepList(o, self)
        o = SInt.lift(o)
        mono = None
        if self.mono is not None and o.mono is not None:
            mono = (self.mono[0] * o.mono[0], self.mono[1] + o.mono[1])
        return SInt(self.bv * o.bv, mono)

    __rmul__ = __mul__

    def __add__(self, o):
        o = SInt.lift(o)
        return SInt(self.bv + o.bv)

    __radd__ = __add__

    def __sub__(self, o):
        return SInt(self.bv - SInt.lift(o).bv)

    def __floordiv__(self, o):
        return SInt(z3.UDiv(self.bv, SInt.lift(o).bv))

    def __truediv__(self, o):
        return SFloat.of(self) / o

    def same(self, o):
        return self.mono is not None and o.mono is not None and self.mono[0] == o.mono[0] and self.mono[1] == o.mono[1]

    def __repr__(self):
        return "SInt(%s)" % (self.mono,) if self.mono else "SInt(%s)" % self.bv


def _cancel(a, b):
    """a/b for monomial SInts with common atoms and the gcd of the coefficients cancelled"""
    if a.mono is None or b.mono is None:
        return a, b
    common = a.mono[1] & b.mono[1]
    g = gcd(a.mono[0], b.mono[0]) or 1
    return _from_mono(a.mono[0] // g, a.mono[1] - common), _from_mono(b.mono[0] // g, b.mono[1] - common)


def _from_mono(coef, atoms):
    e = z3.BitVecVal(coef, BITS)
    for n, p in sorted(atoms.items()):
        for _ in range(p):
            e = e * z3.BitVec(n, BITS)
    return SInt(z3.simplify(e) if not atoms else e, (coef, Counter(atoms)))


class SRat:
    """exact rational (the value fractions.Fraction would hold); denominators are positive by construction"""
    def __init__(self, num, den):
        self.num, self.den = _cancel(SInt.lift(num), SInt.lift(den))

    @property
    def numerator(self):
        """numerator of the reduced fraction - only expressible when the value is an integer; that it is one becomes
        a side obligation (SIDE) of the harness"""
        if self.den.mono == (1, Counter()):
            return self.num
        SIDE.append(("frequency * shots is an integer", z3.URem(self.num.bv, self.den.bv) == 0))
        return SInt(z3.UDiv(self.num.bv, self.den.bv))

    @property
    def denominator(self):
        if self.den.mono == (1, Counter()):
            return 1
        SIDE.append(("frequency * shots is an integer", z3.URem(self.num.bv, self.den.bv) == 0))
        return 1

    def __mul__(self, o):
        if isinstance(o, SRat):
            return SRat(self.num * o.num, self.den * o.den)
        if isinstance(o, Fraction):
            return SRat(self.num * o.numerator, self.den * o.denominator)
        if isinstance(o, (SInt, int)) and not isinstance(o, bool):
            return SRat(self.num * o, self.den)
        if isinstance(o, (float, SFloat)):
            return SFloat.of(self) * o
        return NotImplemented

    __rmul__ = __mul__

    def is_integral(self):
        return self.den.mono == (1, Counter())

    def __floordiv__(self, o):
        if o == 1:
            return to_int(self)
        raise HarnessError("SRat // %r" % (o,))

    def __floor__(self):
        return to_int(self)

    def __trunc__(self):
        return to_int(self)

    def __round__(self, nd=None):
        if self.is_integral():
            return self.num
        raise HarnessError("round() of a non-integral symbolic fraction")

    def __repr__(self):
        return "SRat(%r / %r)" % (self.num, self.den)


class SFloat:
    def __init__(self, e):
        self.e = e

    @staticmethod
    def of(x):
        if isinstance(x, SFloat):
            return x
        if isinstance(x, SInt):
            return SFloat(z3.fpSignedToFP(RNE, x.bv, F64))
        if isinstance(x, SRat):
            # Fraction.__float__ is the correctly rounded quotient; numerator and denominator (< 2**53) convert exactly
            return SFloat(z3.fpDiv(RNE, z3.fpSignedToFP(RNE, x.num.bv, F64), z3.fpSignedToFP(RNE, x.den.bv, F64)))
        if isinstance(x, Fraction):
            return SFloat(z3.FPVal(float(x), F64))
        if isinstance(x, (int, float)):
            return SFloat(z3.FPVal(float(x), F64))
        raise HarnessError("SFloat.of(%r)" % (x,))

    def __mul__(self, o):
        return SFloat(z3.fpMul(RNE, self.e, SFloat.of(o).e))

    __rmul__ = __mul__

    def __truediv__(self, o):
        return SFloat(z3.fpDiv(RNE, self.e, SFloat.of(o).e))

    def __add__(self, o):
        return SFloat(z3.fpAdd(RNE, self.e, SFloat.of(o).e))

    __radd__ = __add__

    def __sub__(self, o):
        return SFloat(z3.fpSub(RNE, self.e, SFloat.of(o).e))

    def __round__(self, nd=None):
        return SInt(z3.fpToSBV(RNE, self.e, z3.BitVecSort(BITS)))      # round-half-even, like Python's round()

    def __floor__(self):
        return SInt(z3.fpToSBV(z3.RTN(), self.e, z3.BitVecSort(BITS)))

    def __trunc__(self):
        return SInt(z3.fpToSBV(z3.RTZ(), self.e, z3.BitVecSort(BITS)))


class Rep:
    """`count` copies of `item` inside a list built as [item] * SInt"""
    def __init__(self, item, count):
        self.item, self.count = item, count

    def __getitem__(self, i):
        return self.item[i]

    def __len__(self):
        return len(self.item)


class RepList(list):
    """[x] * SInt: each element becomes one Rep carrying the symbolic repetition count"""
    def __init__(self, items, count):
        super().__init__([Rep(x, count) for x in items])
        self.count = count


SIDE = []     # (label, z3 Bool) side obligations raised by the model itself
LOG = []      # (site label, argument, result) of every symbolic int() conversion


def to_int(x, label=None):
    if isinstance(x, SInt):
        r = x
    elif isinstance(x, SRat):
        r = x.num if x.is_integral() else SInt(z3.UDiv(x.num.bv, x.den.bv))
    elif isinstance(x, SFloat):
        r = x.__trunc__()
    else:
        r = int(x)
    LOG.append((label, x, r))
    return r


def to_float(x):
    if isinstance(x, (SInt, SRat, SFloat)):
        return SFloat.of(x)
    return float(x)


def sym_round(x, nd=None):
    if isinstance(x, (SRat, SFloat)):
        return x.__round__(nd)
    return round(x) if nd is None else round(x, nd)


class _IntMeta(type):
    """`int` stand-in: calling converts symbolically, isinstance / issubclass behave like the builtin"""
    def __instancecheck__(cls, obj):
        return isinstance(obj, int)

    def __subclasscheck__(cls, sub):
        return issubclass(sub, int)

    def __call__(cls, x=0, *a):
        return to_int(x) if not a else int(x, *a)


class sym_int_type(metaclass=_IntMeta):
    pass


class _FloatMeta(type):
    def __instancecheck__(cls, obj):
        return isinstance(obj, float)

    def __subclasscheck__(cls, sub):
        return issubclass(sub, float)

    def __call__(cls, x=0.0):
        return to_float(x)


class sym_float_type(metaclass=_FloatMeta):
    pass


def rebind(fn, **extra):
    """the same bytecode with int / float / round (and `extra`) rebound in a copy of its globals"""
    g = dict(fn.__globals__)
    g.update({"int": sym_int_type, "float": sym_float_type, "round": sym_round})
    g.update(extra)
    new = types.FunctionType(fn.__code__, g, fn.__name__, fn.__defaults__, fn.__closure__)
    new.__kwdefaults__ = fn.__kwdefaults__
    return new
