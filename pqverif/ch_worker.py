"""CrossHair worker: imports the generated harness module once, then analyses each condition
in a forked child (hard timeout enforced by the parent).  stdin: JSON {path, conditions:[{fn,
timeout_s}], per_path, jobs}; stdout: JSON {fn: [status, message, seconds, replay]}."""
import os
import re
import sys
import json
import time
import importlib.util
import multiprocessing as mp


def _analyse(mod, fn, timeout_s, per_path, conn):
    try:
        from crosshair.core_and_libs import analyze_function, run_checkables
        from crosshair.options import AnalysisOptionSet
        opts = AnalysisOptionSet(report_all=True, per_condition_timeout=float(timeout_s), per_path_timeout=float(per_path))
        msgs = run_checkables(analyze_function(getattr(mod, fn), opts))
        out = [(m.state.name, m.message) for m in msgs]
        conn.send(out)
    except BaseException as e:  # noqa
        conn.send([("WORKER_ERR", repr(e))])
    finally:
        conn.close()


def _replay(mod, call, conn):
    try:
        r = eval("H." + call, {"H": mod})
        conn.send(("RET", repr(r)))
    except Exception as e:
        conn.send(("EXC", "%s %s" % (type(e).__name__, e)))
    finally:
        conn.close()


def _fork(target, args, hard):
    ctx = mp.get_context("fork")
    pc, cc = ctx.Pipe(duplex=False)
    p = ctx.Process(target=target, args=args + (cc,))
    p.start()
    cc.close()
    return p, pc, time.time(), hard


def main():
    job = json.load(sys.stdin)
    path = job["path"]
    sys.path.insert(0, os.path.dirname(path))
    spec = importlib.util.spec_from_file_location(os.path.splitext(os.path.basename(path))[0], path)
    mod = importlib.util.module_from_spec(spec)
    sys.modules[spec.name] = mod
    spec.loader.exec_module(mod)
    import crosshair.core_and_libs  # noqa: imported before forking
    pending = list(job["conditions"])
    running = {}
    results = {}
    jobs = job.get("jobs", 16)
    while pending or running:
        while pending and len(running) < jobs:
            c = pending.pop(0)
            running[c["fn"]] = _fork(_analyse, (mod, c["fn"], c["timeout_s"], job["per_path"]), c["timeout_s"] * 2 + 20)
        done = []
        for fn, (p, pc, t0, hard) in running.items():
            if pc.poll(0.005):
                try:
                    results[fn] = [pc.recv(), time.time() - t0]
                except EOFError:
                    results[fn] = [[("WORKER_ERR", "child died")], time.time() - t0]
                done.append(fn)
            elif not p.is_alive():
                results[fn] = [[("WORKER_ERR", "child exit %s" % p.exitcode)], time.time() - t0]
                done.append(fn)
            elif time.time() - t0 > hard:
                p.kill()
                results[fn] = [[("HARD_TIMEOUT", "killed after %ds" % hard)], time.time() - t0]
                done.append(fn)
        for fn in done:
            p, pc = running[fn][0], running[fn][1]
            p.join(timeout=2)
            pc.close()
            del running[fn]
        if not done:
            time.sleep(0.01)
    # replay counterexamples under plain Python (no tracing), each in its own child
    for fn, (msgs, t) in results.items():
        for state, message in msgs:
            if state in ("POST_FAIL", "POST_ERR", "EXEC_ERR"):
                m = re.search(r"when calling (.*?)(?: \(which returns.*)?$", message, re.S)
                if m:
                    call = m.group(1).strip()
                    p, pc, t0, hard = _fork(_replay, (mod, call), 120)
                    rep = ("TIMEOUT", "")
                    if pc.poll(hard):
                        try:
                            rep = pc.recv()
                        except EOFError:
                            rep = ("DIED", "")
                    if p.is_alive():
                        p.kill()
                    p.join(timeout=2)
                    results[fn].append({"call": call, "replay": rep})
                    break
    json.dump(results, sys.stdout)


if __name__ == "__main__":
    main()
