"""Solver-based checking of piquasso (see /verif/DESIGN.md)."""
