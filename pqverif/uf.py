"""UF abstraction of Python numbers for checking evaluators: arithmetic is uninterpreted
(z3 functions over an uninterpreted sort), comparisons / truthiness are z3 Bools decided per
path by the solver-guided explorer (xa.Env.decide).  Equality of two evaluations is decided by
z3 (EUF congruence) under the path condition."""
import itertools
import z3

from . import xa

Num = z3.DeclareSort("Num")
_F2 = {}
_F1 = {}
B2N = z3.Function("b2n", z3.BoolSort(), Num)
NZ = z3.Function("nonzero", Num, z3.BoolSort())


def f2(op):
    if op not in _F2:
        _F2[op] = z3.Function("op_" + op, Num, Num, Num)
    return _F2[op]


def f1(op):
    if op not in _F1:
        _F1[op] = z3.Function("un_" + op, Num, Num)
    return _F1[op]


_CMP = {}


def cmpf(op):
    if op not in _CMP:
        _CMP[op] = z3.Function("cmp_" + op, Num, Num, z3.BoolSort())
    return _CMP[op]


def num_of(v):
    if isinstance(v, UN):
        return v.t
    if isinstance(v, UB):
        return B2N(v.e)
    if isinstance(v, bool):
        return B2N(z3.BoolVal(v))
    if isinstance(v, int):
        return z3.Const("int:%d" % v, Num)
    if isinstance(v, float):
        return z3.Const("float:%r" % v, Num)
    raise TypeError("not a number: %r" % (v,))


import operator as _opm

_PYOP = {"+": _opm.add, "-": _opm.sub, "*": _opm.mul, "/": _opm.truediv, "%": _opm.mod, "**": _opm.pow, "^": _opm.xor, "//": _opm.floordiv,
         "<<": _opm.lshift, ">>": _opm.rshift, "&": _opm.and_, "|": _opm.or_, "@": _opm.matmul,
         "<": _opm.lt, "<=": _opm.le, ">": _opm.gt, ">=": _opm.ge, "==": _opm.eq, "!=": _opm.ne}


def concrete(v):
    """an opaque bool whose value is fixed by the current path condition acts as that bool"""
    if isinstance(v, UB):
        pc = xa.cur().pc
        for c in pc:
            if c.eq(v.e):
                return True
            if z3.is_not(c) and c.arg(0).eq(v.e):
                return False
    return v


def _is_py(v):
    return isinstance(v, (bool, int, float))


def _bin(op):
    def f(self, o):
        a, b = concrete(self), concrete(o)
        if _is_py(a) and _is_py(b):
            return _PYOP[op](a, b)
        try:
            return UN(f2(op)(num_of(a), num_of(b)))
        except TypeError:
            return NotImplemented

    def r(self, o):
        a, b = concrete(o), concrete(self)
        if _is_py(a) and _is_py(b):
            return _PYOP[op](a, b)
        try:
            return UN(f2(op)(num_of(a), num_of(b)))
        except TypeError:
            return NotImplemented
    return f, r


def _cmp(op):
    def f(self, o):
        a, b = concrete(self), concrete(o)
        if _is_py(a) and _is_py(b):
            return _PYOP[op](a, b)
        try:
            ta, tb = num_of(a), num_of(b)
        except TypeError:
            return NotImplemented
        # canonical forms: a > b is b < a, a >= b is b <= a; == and != are symmetric
        if op == ">":
            return UB(cmpf("<")(tb, ta))
        if op == ">=":
            return UB(cmpf("<=")(tb, ta))
        if op in ("==", "!=") and str(ta) > str(tb):
            ta, tb = tb, ta
        if op == "!=":
            return UB(z3.Not(cmpf("==")(ta, tb)))
        return UB(cmpf(op)(ta, tb))
    return f


class _Arith:
    __hash__ = None


for _name, _op in (("add", "+"), ("sub", "-"), ("mul", "*"), ("truediv", "/"), ("mod", "%"), ("pow", "**"), ("xor", "^"),
                   ("floordiv", "//"), ("lshift", "<<"), ("rshift", ">>"), ("and", "&"), ("or", "|"), ("matmul", "@")):
    _f, _r = _bin(_op)
    setattr(_Arith, "__%s__" % _name, _f)
    setattr(_Arith, "__r%s__" % _name, _r)
for _name, _op in (("lt", "<"), ("le", "<="), ("gt", ">"), ("ge", ">="), ("eq", "=="), ("ne", "!=")):
    setattr(_Arith, "__%s__" % _name, _cmp(_op))
def _un(name, pyf):
    def f(self):
        a = concrete(self)
        if _is_py(a):
            return pyf(a)
        return UN(f1(name)(num_of(a)))
    return f


_Arith.__neg__ = _un("neg", _opm.neg)
_Arith.__pos__ = _un("pos", _opm.pos)
_Arith.__invert__ = _un("inv", _opm.inv)


class UN(_Arith):
    """opaque number"""
    def __init__(self, t):
        self.t = t

    def __bool__(self):
        return xa.cur().decide(NZ(self.t))


class UB(_Arith):
    """opaque bool (result of a comparison)"""
    def __init__(self, e):
        self.e = e

    def __bool__(self):
        return xa.cur().decide(self.e)


def result_term(v):
    """(kind, z3 term or structure) of an evaluation result"""
    if isinstance(v, UN):
        return ("num", v.t)
    v = concrete(v)
    if isinstance(v, UB):
        return ("bool", v.e)
    if isinstance(v, bool):
        return ("bool", z3.BoolVal(v))
    if isinstance(v, int):
        return ("num", num_of(v))
    if isinstance(v, float):
        return ("num", num_of(v))
    if isinstance(v, (tuple, list)):
        return (type(v).__name__, [result_term(e) for e in v])
    return ("other:" + type(v).__name__, None)


def differ(a, b):
    """z3 Bool 'results differ', or True/False when decided structurally"""
    if a[0] != b[0]:
        return True
    if a[0] in ("num", "bool"):
        return a[1] != b[1]
    if a[0] in ("tuple", "list"):
        if len(a[1]) != len(b[1]):
            return True
        ds = [differ(x, y) for x, y in zip(a[1], b[1])]
        if any(d is True for d in ds):
            return True
        ds = [d for d in ds if d is not False]
        return z3.Or(ds) if ds else False
    return a != b


def explore(run_a, run_b, n=4, path_budget=4096):
    """run both evaluators on the same opaque tuple x over every feasible truth path.
    returns dict(paths, queries, result 'unsat'|'sat'|'unknown', cex=path condition strings)"""
    todo = [[]]
    paths = queries = 0
    while todo:
        if paths >= path_budget:
            return {"paths": paths, "queries": queries, "result": "unknown", "why": "path budget"}
        sched = todo.pop()
        env = xa.Env("sym", schedule=sched)
        x = tuple(UN(z3.Const("x%d" % i, Num)) for i in range(n))
        with env:
            try:
                ra = ("val", result_term(run_a(x)))
            except xa.PathAbort:
                todo.extend(env.alts)
                continue
            except xa.HarnessError:
                raise
            except Exception as e:
                ra = ("exc", type(e).__name__)
            try:
                rb = ("val", result_term(run_b(x)))
            except xa.PathAbort:
                todo.extend(env.alts)
                continue
            except xa.HarnessError:
                raise
            except Exception as e:
                rb = ("exc", type(e).__name__)
        todo.extend(env.alts)
        paths += 1
        if ra[0] != rb[0]:
            return {"paths": paths, "queries": queries, "result": "sat", "cex": [str(c) for c in env.pc], "detail": "%s vs %s" % (ra, rb)}
        if ra[0] == "exc":
            continue
        d = differ(ra[1], rb[1])
        if d is False:
            continue
        if d is True:
            return {"paths": paths, "queries": queries, "result": "sat", "cex": [str(c) for c in env.pc], "detail": "%s vs %s" % (ra, rb)}
        s = z3.Solver()
        s.set("timeout", 10000)
        s.add(env.pc)
        s.add(d)
        queries += 1
        r = str(s.check())
        if r == "sat":
            return {"paths": paths, "queries": queries, "result": "sat", "cex": [str(c) for c in env.pc], "detail": "%s vs %s" % (ra, rb)}
        if r != "unsat":
            return {"paths": paths, "queries": queries, "result": "unknown", "why": "solver"}
    return {"paths": paths, "queries": queries, "result": "unsat"}
