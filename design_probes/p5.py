from typing import Tuple, List
from fractions import Fraction
import piquasso as pq
from piquasso.api.exceptions import InvalidModes, InvalidProgram, PiquassoException
from piquasso.api.simulator import Simulator
from piquasso.api.branch import Branch

SIM = pq.GaussianSimulator(d=3)

def modes_ok(a: int, b: int) -> bool:
    """
    pre: -2 <= a <= 4 and -2 <= b <= 4
    post: __return__
    """
    bad = a < 0 or b < 0 or a >= 3 or b >= 3 or a == b
    try:
        with pq.Program() as p:
            pq.Q(a, b) | pq.Beamsplitter(0.3, 0.1)
        SIM.validate(p)
        return not bad
    except PiquassoException:
        return bad

def remap(active: Tuple[int, int, int, int], m0: int, m1: int) -> bool:
    """
    pre: 0 <= active[0] < active[1] < active[2] < active[3] <= 8
    pre: m0 in active and m1 in active and m0 != m1
    post: __return__
    """
    r = Simulator._remap_modes(active, (m0, m1))
    back = Simulator._remap_modes_inverse(active, r)
    rest = Simulator._delete_modes_from_active(active, r)
    return back == (m0, m1) and len(rest) == 2 and m0 not in rest and m1 not in rest and all(x in active for x in rest)

def frac(k1: int, k2: int, n: int) -> bool:
    """
    pre: 1 <= k2 <= k1 <= n <= 50
    post: __return__
    """
    f = Fraction(k1, n)
    cur = int(f * n)
    sub = Fraction(k2, cur) * f
    return cur == k1 and int(sub * n) == k2
