from typing import Tuple
from piquasso.core._expressions import Expression

E1 = Expression("x[0] < x[1] <= x[2] and not x[3] % 3 == 1 or x[0] ** 2 - x[1] * 2 > 7")
C1 = compile("x[0] < x[1] <= x[2] and not x[3] % 3 == 1 or x[0] ** 2 - x[1] * 2 > 7", "<e>", "eval")

def same(x: Tuple[int, int, int, int]) -> bool:
    """
    pre: all(-8 <= v <= 8 for v in x)
    post: __return__
    """
    a = E1(x)
    b = eval(C1, {"x": x})
    return a == b and type(a) == type(b)

import piquasso.core._expressions as ex
E2 = Expression("x[0] < x[1] < x[2]")
def mutated(x: Tuple[int, int, int]) -> bool:
    """
    post: __return__
    """
    # emulate the chain bug: compare always against first
    return (x[0] < x[1] and x[0] < x[2]) == E2(x)
