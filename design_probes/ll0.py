"""Throw-away probe: tiny symbolic interpreter for the integer subset of clang -O1 IR."""
import re, sys, time, z3
src=open('/tmp/probe/drv.ll').read()
def parse_fn(name):
    m=re.search(r'^define [^@]*@'+re.escape(name)+r'\((.*?)\)[^{]*\{\n(.*?)^\}',src,re.S|re.M)
    args=[a.strip().split()[-1] for a in m.group(1).split(',')]
    blocks={}; cur=None; order=[]
    for line in m.group(2).split('\n'):
        line=line.split(', !')[0].rstrip()
        if not line.strip(): continue
        lm=re.match(r'^([\w.$-]+):',line)
        if lm: cur=lm.group(1); blocks[cur]=[]; order.append(cur); continue
        blocks[cur].append(line.strip())
    return args,blocks,order
class UB(Exception): pass
W=32
def val(env,tok,w=W):
    tok=tok.strip()
    if tok.startswith('%'): return env[tok]
    if tok in('true','false'): return z3.BoolVal(tok=='true')
    return z3.BitVecVal(int(tok),w)
def run(name,argvals,pc,solver,ub_hits,maxsteps=2000):
    args,blocks,order=parse_fn(name)
    # DFS over paths with re-execution-free cloning
    stack=[(dict(zip(args,argvals)),order[0],None,list(pc))]
    rets=[]
    while stack:
        env,blk,prev,pc=stack.pop()
        while True:
            nxt=None
            phis=[l for l in blocks[blk] if ' = phi ' in l]
            newvals={}
            for l in phis:
                d,rest=l.split(' = phi ')
                ty=rest.split()[0]; w=int(ty[1:])
                for v,b in re.findall(r'\[ ([^,]+), %([\w.$-]+) \]',rest):
                    if b==prev: newvals[d.strip()]=val(env,v,w)
            env.update(newvals)
            for l in blocks[blk]:
                if ' = phi ' in l: continue
                m=re.match(r'(%[\w.$-]+) = (add|sub|mul|sdiv|srem|or|and|xor)((?: nsw| nuw| exact)*) i(\d+) ([^,]+), (.+)',l)
                if m:
                    d,op,fl,w,a,b=m.groups(); w=int(w); a=val(env,a,w); b=val(env,b,w)
                    if op in('add','sub','mul') and 'nsw' in fl:
                        chk={'add':z3.BVAddNoOverflow(a,b,True) if op=='add' else None}
                        if op=='add': ok=z3.And(z3.BVAddNoOverflow(a,b,True),z3.BVAddNoUnderflow(a,b))
                        if op=='sub': ok=z3.And(z3.BVSubNoOverflow(a,b),z3.BVSubNoUnderflow(a,b,True))
                        if op=='mul': ok=z3.And(z3.BVMulNoOverflow(a,b,True),z3.BVMulNoUnderflow(a,b))
                        solver.push(); solver.add(pc); solver.add(z3.Not(ok))
                        if solver.check()==z3.sat: ub_hits.append((l,solver.model())); solver.pop(); raise UB(l)
                        solver.pop()
                    if op in('sdiv','srem'):
                        solver.push(); solver.add(pc); solver.add(b==0)
                        if solver.check()==z3.sat: ub_hits.append((l,solver.model())); solver.pop(); raise UB(l)
                        solver.pop()
                    r={'add':lambda:a+b,'sub':lambda:a-b,'mul':lambda:a*b,'sdiv':lambda:a/b,'srem':lambda:z3.SRem(a,b),'or':lambda:a|b,'and':lambda:a&b,'xor':lambda:a^b}[op]()
                    env[d]=z3.simplify(r); continue
                m=re.match(r'(%[\w.$-]+) = or i1 ([^,]+), (.+)',l)
                m=re.match(r'(%[\w.$-]+) = icmp (\w+) i(\d+) ([^,]+), (.+)',l)
                if m:
                    d,p,w,a,b=m.groups(); w=int(w); a=val(env,a,w); b=val(env,b,w)
                    env[d]=z3.simplify({'slt':a<b,'sgt':a>b,'sle':a<=b,'sge':a>=b,'eq':a==b,'ne':a!=b}[p]); continue
                m=re.match(r'(%[\w.$-]+) = select i1 ([^,]+), i(\d+) ([^,]+), i\d+ (.+)',l)
                if m:
                    d,c,w,a,b=m.groups(); env[d]=z3.simplify(z3.If(env[c],val(env,a,int(w)),val(env,b,int(w)))); continue
                m=re.match(r'br i1 ([^,]+), label %([\w.$-]+), label %([\w.$-]+)',l)
                if m:
                    c,t,f=m.groups(); c=env[c]
                    if z3.is_bv(c): c=(c==1)
                    outs=[]
                    for cond,tgt in ((c,t),(z3.Not(c),f)):
                        solver.push(); solver.add(pc); solver.add(cond)
                        if solver.check()==z3.sat: outs.append((cond,tgt))
                        solver.pop()
                    for cond,tgt in outs[1:]:
                        stack.append((dict(env),tgt,blk,pc+[cond]))
                    cond,tgt=outs[0]; pc=pc+[cond]; nxt=tgt; break
                m=re.match(r'br label %([\w.$-]+)',l)
                if m: nxt=m.group(1); break
                m=re.match(r'ret i(\d+) (.+)',l)
                if m: rets.append((pc,val(env,m.group(2),int(m.group(1))))); nxt=None; break
                raise NotImplementedError(l)
            if nxt is None: break
            prev,blk=blk,nxt
    return rets
# or i1 handling: patch generic binop regex to accept i1 as bool
n,k=z3.BitVecs('n k',32)
s=z3.Solver()
B=int(sys.argv[1]) if len(sys.argv)>1 else 40
pc=[n>=0,n<=B,k>=0,k<=n]
ub=[]
t=time.time()
try:
    rets=run('drv_binom',[n,k],pc,s,ub)
    print('paths',len(rets),'no UB up to',B,time.time()-t)
except UB as e:
    m=ub[-1][1]; print('UB at',e,'n=',m[n],'k=',m[k],time.time()-t)
