"""Probe: sampler as a function of uniform draws; per-path box volume == exact probability."""
import z3, itertools, types, time
import piquasso._simulators.gaussian.simulation_steps as gs

class Explorer:
    def __init__(s): s.solver=z3.Solver()
    def run(s, fn):
        results=[]; todo=[[]]
        while todo:
            s.sched=todo.pop(); s.pos=0; s.pc=[]; s.log=[]
            out=fn()
            results.append((list(s.pc),out))
            # schedule alternatives discovered on this run
            for i,(alt_feasible) in enumerate(s.log):
                if i>=len(s.sched) and alt_feasible is not None:
                    todo.append([c for c,_ in s.taken[:i]]+[alt_feasible])
        return results
    def decide(s, cond):
        i=s.pos; s.pos+=1
        if i==0: s.taken=[]
        if i<len(s.sched):
            choice=s.sched[i]; s.log.append(None)
        else:
            feas=[]
            for c in (True,False):
                s.solver.push(); s.solver.add(s.pc); s.solver.add(cond if c else z3.Not(cond))
                if s.solver.check()==z3.sat: feas.append(c)
                s.solver.pop()
            choice=feas[0]; s.log.append(feas[1] if len(feas)>1 else None)
        s.taken=s.taken[:i]+[(choice,cond)]
        s.pc.append(cond if choice else z3.Not(cond))
        return choice
EX=Explorer()
class SB:
    def __init__(s,e): s.e=e
    def __bool__(s): return EX.decide(s.e)
class SR:
    def __init__(s,e): s.e=e if z3.is_expr(e) else z3.RealVal(e)
    def _l(o): return o.e if isinstance(o,SR) else z3.RealVal(o)
    def __lt__(s,o): return SB(s.e<SR._l(o))
    def __truediv__(s,o): return SR(s.e/SR._l(o))
    def __rtruediv__(s,o): return SR(SR._l(o)/s.e)
    def __mul__(s,o): return SR(s.e*SR._l(o))
    __rmul__=__mul__
    def __rsub__(s,o): return SR(SR._l(o)-s.e)
    def __sub__(s,o): return SR(s.e-SR._l(o))

M=3
P={(): z3.RealVal(1)}
for L in range(1,M+1):
    for occ in itertools.product((0,1),repeat=L):
        if occ[-1]==0: P[occ]=z3.Real('p_'+''.join(map(str,occ)))
assume=[]
def marg(occ):   # probability of pattern occ on first len(occ) modes
    if occ==(): return z3.RealVal(1)
    if occ[-1]==0: return P[occ]
    return marg(occ[:-1])-P[occ[:-1]+(0,)]
for L in range(1,M+1):
    for occ in itertools.product((0,1),repeat=L):
        assume.append(marg(occ)>0)      # strictly positive tables (division by previous_probability)
us=[]
class RNG:
    def uniform(s):
        u=z3.Real(f'u{len(us)}'); us.append(u); return SR(u)
class Cfg: rng=RNG(); hbar=2.0; cache_size=32
class Red: xpxp_covariance_matrix=SR(1); xpxp_mean_vector=SR(1)
class St:
    _config=Cfg()
    def _is_displaced(s): return False
    def reduced(s,m): return Red()
class Ins: modes=tuple(range(M))
gs.calculate_click_probability_nondisplaced=lambda cov,occ: SR(P[tuple(occ)])
EX.solver.add(assume)
def once():
    us.clear()
    return gs._generate_threshold_samples_using_torontonian(St(),Ins(),1)[0]
t=time.time()
paths=EX.run(once)
print('paths',len(paths),[p[1] for p in paths])
# volume of each path: constraints are u_k < e or not(u_k < e), e free of u
ok=True
for pc,out in paths:
    vol=z3.RealVal(1)
    for c in pc:
        neg=z3.is_not(c); a=c.arg(0) if neg else c
        u,e=a.arg(0),a.arg(1)
        vol=vol*((1-e) if neg else e)
    s=z3.Solver(); s.add(assume); s.add(vol!=marg(tuple(out)))
    r=s.check(); ok&=(r==z3.unsat); print(out,r)
print('all',ok,time.time()-t)
