import z3, time
# MachZehnder block unitarity with symbolic phases (ci,si),(ce,se) on unit circle
ci,si,ce,se = z3.Reals('ci si ce se')
class C:
    def __init__(s,re,im=0): s.re=re; s.im=im
    def __mul__(s,o): o=o if isinstance(o,C) else C(o); return C(s.re*o.re-s.im*o.im, s.re*o.im+s.im*o.re)
    __rmul__=__mul__
    def __add__(s,o): o=o if isinstance(o,C) else C(o); return C(s.re+o.re,s.im+o.im)
    __radd__=__add__
    def __sub__(s,o): o=o if isinstance(o,C) else C(o); return C(s.re-o.re,s.im-o.im)
    def __rsub__(s,o): o=o if isinstance(o,C) else C(o); return C(o.re-s.re,o.im-s.im)
    def conj(s): return C(s.re,-s.im)
I=C(0,1); ip=C(ci,si); ep=C(ce,se); h=C(z3.RealVal("1/2"))
M=[[h*(ep*(ip-1)), h*(I*(ip+1))],[h*(I*ep*(ip+1)), h*(1-ip)]]
def mm(A,B): return [[A[i][0]*B[0][j]+A[i][1]*B[1][j] for j in range(2)] for i in range(2)]
Md=[[M[j][i].conj() for j in range(2)] for i in range(2)]
P=mm(M,Md)
side=[ci*ci+si*si==1, ce*ce+se*se==1]
bad=[]
for i in range(2):
    for j in range(2):
        bad += [P[i][j].re != (1 if i==j else 0), P[i][j].im != 0]
s=z3.Solver(); s.add(side); s.add(z3.Or(bad))
t=time.time(); print(s.check(), time.time()-t)
# bigger: product of three beamsplitters on 3 modes unitary: 6 angle atoms
import itertools
def bs(c,s,cp,sp):
    t=C(c); r=C(cp,sp)*C(s)
    return [[t, C(0)-r.conj()],[r,t]]
def emb(B,i,j):
    M=[[C(1 if a==b else 0) for b in range(3)] for a in range(3)]
    M[i][i]=B[0][0]; M[i][j]=B[0][1]; M[j][i]=B[1][0]; M[j][j]=B[1][1]; return M
def mm3(A,B): return [[sum((A[i][k]*B[k][j] for k in range(3)),C(0)) for j in range(3)] for i in range(3)]
vs=[z3.Reals(f'c{k} s{k} cp{k} sp{k}') for k in range(3)]
side=[]
for c,s_,cp,sp in vs: side += [c*c+s_*s_==1, cp*cp+sp*sp==1]
U=mm3(mm3(emb(bs(*vs[0]),0,1), emb(bs(*vs[1]),1,2)), emb(bs(*vs[2]),0,1))
Ud=[[U[j][i].conj() for j in range(3)] for i in range(3)]
P=mm3(U,Ud)
bad=[]
for i in range(3):
    for j in range(3):
        bad += [P[i][j].re != (1 if i==j else 0), P[i][j].im != 0]
s=z3.Solver(); s.set('timeout',120000); s.add(side); s.add(z3.Or(bad))
t=time.time(); print(s.check(), time.time()-t)
