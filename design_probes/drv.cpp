#include <cstdio>
#include <cstdint>
#include <cstddef>
#include "utils.hpp"
#include "n_aryGrayCodeCounter.hpp"
extern "C" int drv_binom(int n, int k) { return binomialCoeff<int>(n, k); }
extern "C" int drv_next(n_aryGrayCodeCounter *c, int *ci, int *pv, int *v) { return c->next(*ci, *pv, *v); }
extern "C" void drv_init(n_aryGrayCodeCounter *c, int64_t off) { c->initialize(off); }
