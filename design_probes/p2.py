import time, numpy as np, z3, types
from fractions import Fraction

def R(x):
    if isinstance(x, z3.ArithRef): return x
    if isinstance(x,(int,)): return z3.RealVal(x)
    if isinstance(x,float):
        return z3.RealVal(Fraction(x).limit_denominator(10**12)) if x!=int(x) else z3.RealVal(int(x))
    if isinstance(x, Fraction): return z3.RealVal(x)
    raise TypeError(type(x))

class SC:
    """symbolic complex: re, im are z3 Real terms"""
    __array_priority__ = 1000
    def __init__(s, re, im=0): s.re=R(re); s.im=R(im)
    @staticmethod
    def lift(x):
        if isinstance(x, SC): return x
        if isinstance(x, complex): return SC(x.real, x.imag)
        if isinstance(x,(np.generic,)): x=x.item(); return SC.lift(x)
        return SC(x)
    def __add__(s,o):
        if isinstance(o,np.ndarray): return NotImplemented
        o=SC.lift(o); return SC(s.re+o.re, s.im+o.im)
    __radd__=__add__
    def __sub__(s,o):
        if isinstance(o,np.ndarray): return NotImplemented
        o=SC.lift(o); return SC(s.re-o.re, s.im-o.im)
    def __rsub__(s,o): o=SC.lift(o); return SC(o.re-s.re,o.im-s.im)
    def __mul__(s,o):
        if isinstance(o,np.ndarray): return NotImplemented
        o=SC.lift(o); return SC(s.re*o.re-s.im*o.im, s.re*o.im+s.im*o.re)
    __rmul__=__mul__
    def __neg__(s): return SC(-s.re,-s.im)
    def __truediv__(s,o):
        if isinstance(o,(int,float)): return SC(s.re/R(o), s.im/R(o))
        raise NotImplementedError
    def conjugate(s): return SC(s.re,-s.im)
    conj=conjugate
    @property
    def real(s): return SC(s.re,0)
    @property
    def imag(s): return SC(s.im,0)

def symvec(name,n): return np.array([SC(z3.Real(f'{name}r{i}'),z3.Real(f'{name}i{i}')) for i in range(n)],dtype=object)
def symmat(name,n,m): return np.array([[SC(z3.Real(f'{name}r{i}{j}'),z3.Real(f'{name}i{i}{j}')) for j in range(m)] for i in range(n)],dtype=object)

import piquasso as pq
from piquasso._simulators.gaussian import simulation_steps as gs
from piquasso._simulators.gaussian.state import GaussianState
from piquasso._simulators.connectors import NumpyConnector

d=3
conn=NumpyConnector()
st=GaussianState(d=d,connector=conn,config=pq.Config())
st._m=symvec('m',d); st._C=symmat('C',d,d); st._G=symmat('G',d,d)
C0=st._C.copy(); G0=st._G.copy(); m0=st._m.copy()
P=symmat('P',2,2); A=symmat('A',2,2)
modes=(2,0)
t=time.time()
gs._apply_linear(st,P,A,modes)
print('exec',time.time()-t, type(st._C[0,0]))
# reference: full 2d x 2d
# only check the block: C'[modes,modes] ref
idx=np.ix_(modes,modes)
Cb=C0[idx]; Gb=G0[idx]
conjm=np.vectorize(lambda x:x.conjugate(),otypes=[object])
I=np.identity(2)
refG = P@Gb@P.T + A@conjm(Gb).T@A.T + P@(Cb.T+I)@A.T + A@Cb@P.T
s=z3.Solver()
diffs=[]
for i in range(2):
    for j in range(2):
        a=st._G[modes[i],modes[j]]; b=refG[i,j]
        diffs.append(a.re!=b.re); diffs.append(a.im!=b.im)
s.add(z3.Or(diffs))
t=time.time(); print(s.check(), time.time()-t)
m=s.model()
for i in range(2):
    for j in range(2):
        a=st._G[modes[i],modes[j]]; b=refG[i,j]
        print(i,j,m.eval(a.re,model_completion=True),m.eval(b.re,model_completion=True),m.eval(a.im,model_completion=True),m.eval(b.im,model_completion=True))
x=np.array([SC(1,2)],dtype=object)
print(x.conjugate()[0].im, np.conj(x)[0].im, x.real, x.imag)
