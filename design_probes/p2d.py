import inspect, sys
import piquasso._simulators.gaussian.simulation_steps as gs
src=inspect.getsource(gs._apply_linear_to_auxiliary_modes)
src=src.replace("P.conjugate() @ auxiliary_C + A.conjugate() @ auxiliary_G","P.conjugate() @ auxiliary_C + A @ auxiliary_G")
exec(src, gs.__dict__)
exec(open('p2c.py').read())
