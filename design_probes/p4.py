from typing import Tuple
import piquasso._math.indices as ind
import piquasso._math.combinatorics as cmb
import piquasso._math.fock as fock
# rebind njit functions to python versions so that symbolic ints flow through
_comb = cmb.comb.py_func
_gi_src = ind.get_index_in_fock_space.py_func
ind_globals = _gi_src.__globals__
ind_globals['comb'] = _comb

def idx3(a: int, b: int, c: int) -> int:
    """
    pre: 0 <= a <= 4 and 0 <= b <= 4 and 0 <= c <= 4
    pre: a + b + c <= 4
    post: 0 <= __return__ < 35
    """
    return _gi_src((a, b, c))

def inj3(a: int, b: int, c: int, x: int, y: int, z: int) -> bool:
    """
    pre: 0 <= a and 0 <= b and 0 <= c and a + b + c <= 4
    pre: 0 <= x and 0 <= y and 0 <= z and x + y + z <= 4
    pre: (a, b, c) != (x, y, z)
    post: __return__
    """
    return _gi_src((a, b, c)) != _gi_src((x, y, z))
