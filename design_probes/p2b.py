import time, numpy as np, z3, sys
exec(open('p2.py').read().split("import piquasso as pq")[0])
import piquasso as pq
from piquasso._simulators.gaussian import simulation_steps as gs
from piquasso._simulators.gaussian.state import GaussianState
from piquasso._simulators.connectors import NumpyConnector
conjm=np.vectorize(lambda x:x.conjugate(),otypes=[object])
def herm(name,n):
    M=np.empty((n,n),dtype=object)
    for i in range(n):
        for j in range(i,n):
            if i==j: M[i,i]=SC(z3.Real(f'{name}r{i}{i}'),0)
            else:
                M[i,j]=SC(z3.Real(f'{name}r{i}{j}'),z3.Real(f'{name}i{i}{j}')); M[j,i]=M[i,j].conjugate()
    return M
def symm(name,n):
    M=np.empty((n,n),dtype=object)
    for i in range(n):
        for j in range(i,n):
            M[i,j]=SC(z3.Real(f'{name}r{i}{j}'),z3.Real(f'{name}i{i}{j}')); M[j,i]=M[i,j]
    return M
d=int(sys.argv[1]); modes=tuple(int(x) for x in sys.argv[2].split(','))
k=len(modes)
conn=NumpyConnector()
st=GaussianState(d=d,connector=conn,config=pq.Config())
st._m=symvec('m',d); st._C=herm('C',d); st._G=symm('G',d)
C0=st._C.copy(); G0=st._G.copy(); m0=st._m.copy()
P=symmat('P',k,k); A=symmat('A',k,k)
t=time.time()
gs._apply_linear(st,P,A,modes)
print('exec',time.time()-t)
Pe=np.array([[SC(1 if i==j else 0) for j in range(d)] for i in range(d)],dtype=object)
Ae=np.array([[SC(0) for j in range(d)] for i in range(d)],dtype=object)
for a,ma in enumerate(modes):
    for b,mb in enumerate(modes):
        Pe[ma,mb]=P[a,b]; Ae[ma,mb]=A[a,b]
I=np.identity(d)
refG = Pe@G0@Pe.T + Ae@conjm(G0).T@Ae.T + Pe@(C0.T+I)@Ae.T + Ae@C0@Pe.T
refC = conjm(Pe)@C0@Pe.T + conjm(Ae)@(C0.T+I)@Ae.T + conjm(Pe)@conjm(G0).T@Ae.T + conjm(Ae)@G0@Pe.T
refm = Pe@m0 + Ae@conjm(m0)
s=z3.Solver()
diffs=[]
for X,Y in ((st._G,refG),(st._C,refC)):
    for i in range(d):
        for j in range(d):
            a=SC.lift(X[i,j]); b=SC.lift(Y[i,j])
            diffs.append(a.re!=b.re); diffs.append(a.im!=b.im)
for i in range(d):
    a=SC.lift(st._m[i]); b=SC.lift(refm[i]); diffs.append(a.re!=b.re); diffs.append(a.im!=b.im)
# symplectic side condition NOT imposed: the identity should hold? No: C' hermitian requires P A^T symmetric etc. So expect sat without it.
s.add(z3.Or(diffs))
t=time.time(); r=s.check(); print(r, time.time()-t)
if str(r)=='sat':
    m=s.model()
    for X,Y,n in ((st._G,refG,'G'),(st._C,refC,'C')):
        for i in range(d):
            for j in range(d):
                a=SC.lift(X[i,j]); b=SC.lift(Y[i,j])
                if not (m.eval(a.re==b.re,model_completion=True) and m.eval(a.im==b.im,model_completion=True)): print('diff',n,i,j)
