from typing import Tuple
import copy
import piquasso as pq
from piquasso.api.simulator import Simulator
from piquasso.api.state import State
from piquasso.api.branch import Branch
from piquasso.api.config import Config
from piquasso._simulators.connectors import NumpyConnector
from fractions import Fraction

class Boom(Exception): pass

class DummyState(State):
    def __init__(self, d, connector, config=None):
        super().__init__(connector=connector, config=config); self._d = d
    @property
    def d(self): return self._d
    @property
    def fock_probabilities(self): return []
    def validate(self): pass
    def get_particle_detection_probability(self, occupation_number): return 0.0

CRASH = [None]
COUNT = [0]
def step(state, instruction, shots):
    if COUNT[0] == CRASH[0]:
        raise Boom()
    COUNT[0] += 1
    return [Branch(state=state)]
def mstep(state, instruction, shots):
    if COUNT[0] == CRASH[0]:
        raise Boom()
    COUNT[0] += 1
    new = DummyState(state.d - len(instruction.modes), state._connector, state._config)
    return [Branch(state=new, outcome=(0,) * len(instruction.modes), frequency=Fraction(1))]

class Sim(Simulator):
    _state_class = DummyState
    _default_connector_class = NumpyConnector
    _measurement_classes_allowed_mid_circuit = (pq.ParticleNumberMeasurement,)
    _instruction_map = {pq.Phaseshifter: step, pq.Beamsplitter: step, pq.ParticleNumberMeasurement: mstep}

def snapshot(p): return [(i.modes, dict(i.params)) for i in p.instructions]

def restored(m: int, a: int, b: int, crash: int) -> bool:
    """
    pre: 0 <= m <= 3 and 0 <= a <= 3 and 0 <= b <= 3 and a != b and m != a and m != b
    pre: 0 <= crash <= 3
    post: __return__
    """
    prog = pq.Program(instructions=[
        pq.Phaseshifter(0.1).on_modes(m),
        pq.ParticleNumberMeasurement().on_modes(m),
        pq.Beamsplitter(0.2, 0.3).on_modes(a, b),
    ])
    before = snapshot(prog)
    CRASH[0] = crash; COUNT[0] = 0
    try:
        Sim(d=4).execute(prog, shots=1)
    except Boom:
        pass
    return snapshot(prog) == before
