"""Probe: C01 passive sector. SLOS (PassiveState.calculate_state_vector) vs Fock-space
representation (calculate_interferometer_on_fock_space.py_func) for a generic symbolic U."""
import numpy, z3, time, sys, math
from fractions import Fraction
np_real = numpy
ATOMS = {}; AXIOMS = []
def R(x):
    if z3.is_expr(x): return x
    if isinstance(x, (int, numpy.integer)): return z3.RealVal(int(x))
    if isinstance(x, Fraction): return z3.RealVal(x)
    if isinstance(x, (float, numpy.floating)):
        f = Fraction(float(x))
        if f.denominator > 10**6:
            f2 = f.limit_denominator(10**4); assert float(f2) == float(x), ('inexact float leaked', x); f = f2
        return z3.RealVal(f)
    raise TypeError(type(x))
def sqrt_rational(q):
    q = Fraction(q)
    if q.denominator > 10**6:
        q2 = q.limit_denominator(10**4); assert float(q2) == float(q), ('irrecoverable float', q); q = q2
    if q == 0: return z3.RealVal(0)
    m = q.numerator * q.denominator       # sqrt(n/d) = sqrt(n*d)/d
    out = z3.RealVal(Fraction(1, q.denominator)); p = 2; coef = 1
    while p * p <= m:
        e = 0
        while m % p == 0: m //= p; e += 1
        coef *= p ** (e // 2)
        if e % 2: out = out * prime_atom(p)
        p += 1
    if m > 1: out = out * prime_atom(m)
    return z3.simplify(out * coef)
def prime_atom(p):
    key = ('sqrt', p)
    if key not in ATOMS:
        y = z3.Real(f'sqrt{p}'); ATOMS[key] = y; AXIOMS.extend([y*y == p, y > 0])
    return ATOMS[key]
class SC:
    __array_priority__ = 1000
    def __init__(s, re, im=0, inv=None): s.re = R(re); s.im = R(im); s.inv = inv
    @staticmethod
    def lift(x):
        if isinstance(x, SC): return x
        if isinstance(x, (complex, numpy.complexfloating)): return SC(x.real, x.imag)
        return SC(x)
    def __add__(s, o):
        if isinstance(o, numpy.ndarray): return NotImplemented
        o = SC.lift(o); return SC(s.re+o.re, s.im+o.im)
    __radd__ = __add__
    def __sub__(s, o): o = SC.lift(o); return SC(s.re-o.re, s.im-o.im)
    def __rsub__(s, o): o = SC.lift(o); return SC(o.re-s.re, o.im-s.im)
    def __mul__(s, o):
        if isinstance(o, numpy.ndarray): return NotImplemented
        o = SC.lift(o); return SC(s.re*o.re-s.im*o.im, s.re*o.im+s.im*o.re)
    __rmul__ = __mul__
    def __truediv__(s, o):
        o = SC.lift(o)
        if o.inv is not None: return s * o.inv
        assert z3.is_rational_value(z3.simplify(o.im)) and z3.simplify(o.im).as_fraction() == 0
        return SC(s.re/o.re, s.im/o.re)
    def __neg__(s): return SC(-s.re, -s.im)
    def conjugate(s): return SC(s.re, -s.im)
    @property
    def real(s): return SC(s.re)
    @property
    def imag(s): return SC(s.im)
def to_obj(a):
    return a
class XNP:
    """numpy facade: float/complex arrays become object arrays, sqrt of rationals is exact."""
    def __getattr__(s, n): return getattr(numpy, n)
    def _dt(s, dtype):
        if dtype is None: return object
        try:
            k = numpy.dtype(dtype).kind
        except TypeError:
            return object
        return object if k in 'fc' else dtype
    def zeros(s, shape, dtype=None): 
        a = numpy.zeros(shape, dtype=s._dt(dtype)); 
        return a
    def empty(s, shape, dtype=None): return numpy.zeros(shape, dtype=s._dt(dtype))
    def identity(s, n, dtype=None): return numpy.identity(n, dtype=s._dt(dtype))
    def array(s, x, dtype=None): return numpy.array(x, dtype=s._dt(dtype) if dtype is not None else None)
    def sqrt(s, x):
        if isinstance(x, numpy.ndarray) and x.dtype != object:
            out = numpy.empty(x.shape, dtype=object)
            for i in numpy.ndindex(x.shape): out[i] = mk_sqrt(x[i].item())
            return out
        if isinstance(x, (int, float, Fraction, numpy.integer, numpy.floating)): return mk_sqrt(x)
        raise NotImplementedError(type(x))
def mk_sqrt(x):
    q = Fraction(x)
    if q.denominator > 10**6: q = q.limit_denominator(10**4)
    if q == 0: return SC(0)
    t = sqrt_rational(q)
    return SC(t, 0, inv=SC(z3.simplify(t / z3.RealVal(q))))   # 1/sqrt(q) = sqrt(q)/q
xnp = XNP()

import piquasso as pq
from piquasso._simulators.connectors import NumpyConnector
from piquasso._simulators.connectors.connector import BuiltinConnector
import piquasso._simulators.passive.utils as putils
import piquasso._simulators.fock.simulation_steps as fsteps
import piquasso._simulators.connectors.numpy_.interferometer as interf
import piquasso._math.fock as mfock

class SymConnector(NumpyConnector):
    np = fallback_np = forward_pass_np = xnp
conn = SymConnector()

d = int(sys.argv[1]); n = int(sys.argv[2]); cutoff = n + 1
U = numpy.array([[SC(z3.Real(f'ur{i}{j}'), z3.Real(f'ui{i}{j}')) for j in range(d)] for i in range(d)], dtype=object)

# --- Fock-space representation via the real (py_func) kernels with exact sqrt
helper = fsteps.calculate_interferometer_helper_indices.py_func
g = helper.__globals__; saved = g['np']; g['np'] = xnp
# nb_get_fock_space_basis etc. are njit dispatchers: fine to call compiled (ints only)
try:
    idx = helper(d=d, cutoff=cutoff)
finally:
    g['np'] = saved
rep_fn = interf.calculate_interferometer_on_fock_space.py_func
g2 = rep_fn.__globals__; saved2 = g2['np']; g2['np'] = xnp
t = time.time()
try:
    reps = rep_fn(U, idx)
finally:
    g2['np'] = saved2
print('fock reps', [r.shape for r in reps], round(time.time()-t, 2))

# --- SLOS state vectors for every n-photon input
basis = mfock.get_fock_space_basis(d, cutoff)
sector = [tuple(int(x) for x in b) for b in basis if sum(b) == n]
cfg = pq.Config(cutoff=cutoff)
cfg.complex_dtype  # property
bad = 0; total = 0; t = time.time()
s = z3.Solver(); s.set('timeout',60000)
for col, inp in enumerate(sector):
    sv = putils.calculate_state_vector(U, numpy.array(inp), ((), ()), cfg, conn)
    for row in range(len(sector)):
        a = SC.lift(sv[row]); b = SC.lift(reps[n][row, col])
        s = z3.Solver(); s.set('timeout',60000); s.add(AXIOMS); s.add(z3.Or(a.re != b.re, a.im != b.im)); r = s.check()
        total += 1
        if str(r) != 'unsat': bad += 1; print('MISMATCH', inp, sector[row], r)
print('obligations', total, 'not-unsat', bad, 'atoms', len(ATOMS), round(time.time()-t, 2), 's')
