exec(open('p2b.py').read().split("s=z3.Solver()")[0])
PAt=P@A.T
side=[]
for i in range(k):
    for j in range(i+1,k):
        side += [PAt[i,j].re==PAt[j,i].re, PAt[i,j].im==PAt[j,i].im]
tot=0
import itertools
res=[]
t0=time.time()
for X,Y,n in ((st._G,refG,'G'),(st._C,refC,'C')):
    for i in range(d):
        for j in range(d):
            a=SC.lift(X[i,j]); b=SC.lift(Y[i,j])
            for u,v in ((a.re,b.re),(a.im,b.im)):
                s=z3.Solver(); s.set('timeout',60000); s.add(side); s.add(u!=v)
                t=time.time(); r=s.check(); res.append((n,i,j,str(r),round(time.time()-t,3)))
print(res); print('total',time.time()-t0)
