#!/bin/bash
# ./mutate.sh <PROP> <file-in-repo> <sed-expr> [extra check args]: apply a one-line mutation to /repo, run the quick check, revert.
P=$1; F=$2; E=$3; shift 3
cd /repo && sed -i "$E" "$F" && git diff --stat | head -3
if git diff --quiet; then echo "MUTATION DID NOT APPLY"; exit 2; fi
cd /verif && ./check $P "$@" > /tmp/mut.out 2>&1; echo "exit=$?"; grep -c "^VIOLATION" /tmp/mut.out; grep "HARNESS-ERROR" /tmp/mut.out | head -5; tail -1 /tmp/mut.out
cd /repo && git checkout -- . && git status --short
