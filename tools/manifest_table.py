"""Per-property manifest entries (edited as checks are built)."""
NB = "not yet built in this session (planned, see DESIGN.md section 4); no claim is made until a check exists"
CHECKS = {
    "C07": {
        "engine": "E-XA",
        "technique": "symbolic execution of the real Python code over z3 reals + SMT (nlsat) decision of every obligation; counterexamples replayed on the float code",
        "text": "Bounded symbolic verification: the real gate-block builders and the real Gaussian update rules are executed on symbolic complex scalars; for every gate, every ordered mode subset on d<=3 (thorough: d<=4) and a fully generic input state, z3 decides that the output equals the documented symplectic congruence for ALL real gate parameters and all hbar>0 (trig/hyperbolic values are algebraic atoms). This is the level the property asks for ('for all real parameters, established symbolically'); the bound is the number of modes and the sequence length (2).",
        "note": "Trusted: z3/cvc5, the numpy facade (validated each run at random points against real numpy), CPython. Reals stand in for floats (rounding is outside the claim). Outside: d>4, sequences longer than 2 gates, user-supplied matrices beyond generic (P,A) with k<=2 under the symplectic side condition.",
    },
}
NOT_APPLICABLE = {p: NB for p in ["C%02d" % i for i in range(1, 21)] if p not in CHECKS}
NOT_APPLICABLE["C09"] = ("needs TensorFlow/JAX/XLA execution (tf.function, jax.jit, tf.linalg, XLA FFI); none of it can run on symbolic values and no "
                         "source-level semantics of those runtimes is available to encode, so a solver-based check would verify my model of the runtimes, not piquasso")
