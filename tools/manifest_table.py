"""Per-property manifest entries (edited as checks are built)."""
NB = "not yet built in this session (planned, see DESIGN.md section 4); no claim is made until a check exists"
CHECKS = {
    "C07": {
        "engine": "E-XA",
        "technique": "symbolic execution of the real Python code over z3 reals + SMT (nlsat) decision of every obligation; counterexamples replayed on the float code",
        "text": "Bounded symbolic verification: the real gate-block builders and the real Gaussian update rules are executed on symbolic complex scalars; for every gate, every ordered mode subset on d<=3 (thorough: d<=4) and a fully generic input state, z3 decides that the output equals the documented symplectic congruence for ALL real gate parameters and all hbar>0 (trig/hyperbolic values are algebraic atoms). This is the level the property asks for ('for all real parameters, established symbolically'); the bound is the number of modes and the sequence length (2).",
        "note": "Trusted: z3/cvc5, the numpy facade (validated each run at random points against real numpy), CPython. Reals stand in for floats (rounding is outside the claim). Outside: d>4, sequences longer than 2 gates, user-supplied matrices beyond generic (P,A) with k<=2 under the symplectic side condition.",
    },
    "C14": {
        "engine": "E-XA",
        "technique": "symbolic execution of GaussianState's getters/setters/observables over z3 reals with symbolic hbar + SMT decision (nlsat / nla-Groebner / cvc5); counterexamples replayed on the float code",
        "text": "Bounded symbolic verification: for a fully generic ladder-moment state (m, C=C^+, G=G^T) on d<=2 (thorough d<=3) modes and symbolic hbar>0, z3 decides that setters and getters are mutually inverse in both orderings, that the complex representation is the documented W-transform, that reduction/rotation commute with the representation maps for every ordered mode subset and every angle, that means scale with sqrt(hbar) and covariances with hbar, and that every dimensionless observable (purity, photon-number mean/variance, parity, xp/ladder string moments, quadratic polynomials, the arguments handed to the threshold kernel, the (A,b,c) triple of the density-matrix calculation) equals its value at hbar=2. 'All hbar' needs a symbolic hbar; tests run at hbar=2 only.",
        "note": "Trusted: z3/cvc5, numpy facade (validated per run on physical random states), CPython. Config(validate=False) in the harness (LAPACK eigenvalue validators are outside). Outside: fidelity (eigvals), Wigner function, torontonian/hafnian kernels themselves, d>3, float rounding.",
    },
    "C20": {
        "engine": "E-CH + E-XA explorer (UF abstraction)",
        "technique": "symbolic execution of Expression._eval vs Python's eval: (a) solver-guided path exploration under an uninterpreted-function abstraction of numbers with z3 (EUF) deciding result equality on every truth path, (b) CrossHair (z3) over all integer outcome tuples in a box",
        "text": "Bounded symbolic verification. (a) For every generated source (all operators at depth 1, all 196 ordered operator pairs at depth 2 in three groupings, unary forms, 300/3000 seed-sampled depth-3 trees) Expression(src) and eval(src) are run on a tuple of opaque numbers whose arithmetic is uninterpreted and whose comparisons/truthiness are z3 Bools; the explorer follows every feasible truth path and z3 decides that both results are equal - this covers operands of any numeric type and all short-circuit / chained-comparison behaviour. (b) CrossHair confirms value-and-type equality with eval for all int tuples in [-8,8]^4 for the families that z3 decides (depth-1 operators, constant powers, all 36 comparison chains, indexing/slicing forms) and read-order equality. (c) A solver-chosen (construct, embedding) pair from a table of 50 constructs outside the documented grammar must raise InvalidExpression at construction in Expression, Instruction.when and string parameters.",
        "note": "Trusted: z3, CrossHair's model of Python ints/tuples, CPython's eval as the oracle. Source strings are enumerated/sampled (ast.parse realises symbolic strings) - bound: depth 3. Candidates of the UF over-approximation count only if they replay on concrete ints. Outside: symbolic exponents, float entries in (b), strings deeper than 3, resource exhaustion by huge powers.",
    },
}
NOT_APPLICABLE = {p: NB for p in ["C%02d" % i for i in range(1, 21)] if p not in CHECKS}
NOT_APPLICABLE["C09"] = ("needs TensorFlow/JAX/XLA execution (tf.function, jax.jit, tf.linalg, XLA FFI); none of it can run on symbolic values and no "
                         "source-level semantics of those runtimes is available to encode, so a solver-based check would verify my model of the runtimes, not piquasso")
