#!/bin/bash
# tools/refresh.sh C07 C14 ... : re-run quick checks on the unchanged tree (must be clean) and keep their evidence
cd "$(dirname "$0")/.."
if ! git -C /repo diff --quiet; then echo "/repo has uncommitted changes"; exit 2; fi
for p in "$@"; do ./check $p --tier quick > /tmp/refresh_$p.log 2>&1; echo "$p exit=$? $(tail -1 /tmp/refresh_$p.log)"; done
