#!/bin/bash
# tools/try_seed.sh <PROP> <patch.diff> [extra check args] : apply a seeded change to /repo, run the quick check, undo.
P=$1; D=$2; shift 2
cd /repo && git diff --quiet || { echo "/repo dirty"; exit 2; }
git apply "$D" || { echo "patch does not apply"; exit 2; }
cd /verif && ./check $P "$@" > /tmp/seed_$P.out 2>&1; code=$?
echo "exit=$code violations=$(grep -c '^VIOLATION' /tmp/seed_$P.out) $(tail -1 /tmp/seed_$P.out)"
grep "HARNESS-ERROR" /tmp/seed_$P.out | head -3
cd /repo && git checkout -- . && git status --short
