#!/usr/bin/env python3
"""Regenerates /verif/MANIFEST.json from the table below (keeps it valid at all times)."""
import json, os, sys
HERE = os.path.dirname(os.path.dirname(os.path.abspath(__file__)))
sys.path.insert(0, HERE)
from tools.manifest_table import CHECKS, NOT_APPLICABLE

def main():
    checks = []
    for pid, c in sorted(CHECKS.items()):
        checks.append({
            "property_id": pid,
            "quick_cmd": "./check %s --tier quick" % pid,
            "thorough_cmd": "./check %s --tier thorough" % pid,
            "evidence_file": "/verif/evidence/%s.json" % pid,
            "replay_cmd_template": "./check %s --replay {path}" % pid,
            "engine": c["engine"],
            "level_claimed": {"category": "other", "text": c["text"], "design_ref": c.get("design_ref", "DESIGN.md section 4, %s" % pid)},
            "level_note": c["note"],
            "technique": c["technique"],
        })
    man = {
        "version": 1,
        "setup_cmd": "./setup.sh",
        "hooks": {
            "guard": "PIQUASSO_VERIF",
            "enable": "no source hooks are needed: the checks import /repo's working tree and drive it from outside (module-global substitution inside the harness process, numba .py_func, clang AST dump / plain recompilation of src/*.cpp)",
            "baseline_off_cmd": "cd /repo && /venv/bin/python -m pytest -ra -q -p no:cacheprovider --timeout=900 --continue-on-collection-errors",
            "source_commits": [],
            "add_only": True,
        },
        "engines": [
            {"name": "E-XA", "path": "pqverif/xa.py", "serves_properties": sorted(p for p, c in CHECKS.items() if "E-XA" in c["engine"]),
             "kind_free_text": "symbolic execution of the real numeric Python code on z3-Real complex scalars in numpy object arrays; obligations decided by z3 nlsat / z3 nla+Groebner / cvc5; sat models replayed on the float code"},
            {"name": "E-CH", "path": "pqverif/ch.py", "serves_properties": sorted(p for p, c in CHECKS.items() if "E-CH" in c["engine"]),
             "kind_free_text": "CrossHair (symbolic execution of Python with z3) on generated harness functions calling the real piquasso code"},
            {"name": "E-CX", "path": "pqverif/cx.py", "serves_properties": sorted(p for p, c in CHECKS.items() if "E-CX" in c["engine"]),
             "kind_free_text": "symbolic interpreter for clang-14's JSON AST of src/*.cpp (instantiated templates) on z3 reals and machine integers with C++ width obligations; a UBSan-compiled twin of the same source replays counterexamples and validates the interpreter"},
        ],
        "checks": checks,
        "not_applicable": [{"property_id": p, "reason": r} for p, r in sorted(NOT_APPLICABLE.items())],
        "notes": "All checks are bounded symbolic verification (solver-decided obligations over the executed real code); see DESIGN.md. Exit 0 = no violation among decided obligations (listed findings of /verif/known_findings.json are printed as KNOWN-FINDING lines), 1 = replayed violation not listed there, 3 = harness error. Genuine defects repaired in /repo by 'fix:' commits and the recorded findings are listed in /verif/known_findings.json and DESIGN.md section 7.4; seeded breaking changes and which checks catch them in /verif/seeded and DESIGN.md section 7.5.",
    }
    with open(os.path.join(HERE, "MANIFEST.json"), "w") as f:
        json.dump(man, f, indent=1)
        f.write("\n")
    try:
        import jsonschema
        jsonschema.validate(man, json.load(open("/root/.vp/MANIFEST.schema.json")))
        print("MANIFEST.json valid;", len(checks), "checks,", len(NOT_APPLICABLE), "not applicable")
    except ImportError:
        print("written (jsonschema not available for validation)")

if __name__ == "__main__":
    main()
