#!/usr/bin/env python3
"""tools/seed_note.py <ID-i> <detection> [<after>] : record how a seeded change fared against the checks"""
import json, sys
p = "/verif/seeded/%s/meta.json" % sys.argv[1]
m = json.load(open(p))
m["detection"] = sys.argv[2]
if len(sys.argv) > 3:
    m["after"] = sys.argv[3]
json.dump(m, open(p, "w"), indent=1)
