#!/bin/bash
# tools/confirm_seed.sh <PROP> <i> "<test paths>" : confirm a sub-agent's seeded change in its scratch worktree and keep it under /verif/seeded
P=$1; I=$2; TESTS=$3
WT=/tmp/seed/$P; OUT=$WT/out/$I; W=/tmp/seed/tools/wtpy
cd $WT && git checkout -q -- . && git status --short | grep -v '^??' 
[ -f $OUT/patch.diff ] || { echo "no patch"; exit 2; }
$W $WT $OUT/demo.py > /tmp/cs_unpatched_$P.txt 2>&1; U=$?
git apply $OUT/patch.diff || { echo "patch does not apply"; exit 2; }
$W $WT $OUT/demo.py > /tmp/cs_patched_$P.txt 2>&1; Q=$?
$W $WT -m pytest -q -p no:cacheprovider -x $TESTS > /tmp/cs_tests_$P.txt 2>&1; T=$?
git checkout -q -- .
echo "$P-$I demo_unpatched_exit=$U demo_patched_exit=$Q tests_exit=$T ($(tail -1 /tmp/cs_tests_$P.txt))"
if [ $U -eq 0 ] && [ $Q -ne 0 ] && [ $T -eq 0 ]; then
  D=/verif/seeded/$P-$I; mkdir -p $D; cp $OUT/patch.diff $OUT/demo.py $D/
  python3 - <<PY
import json
m=json.load(open("$OUT/meta.json"))
m["confirmed"]={"worktree":"$WT","demo_unpatched_exit":$U,"demo_patched_exit":$Q,"tests":"$TESTS","tests_result":open("/tmp/cs_tests_$P.txt").read().strip().split("\n")[-1]}
json.dump(m,open("$D/meta.json","w"),indent=1)
PY
  echo "kept $D"
else echo "NOT kept"; fi
